//! The third-party packet families `Custom<PT, MIN>` (default `MAX_COUNT`) and `Custom16<PT, MIN>`
//! (`MAX_COUNT = 16`) of PROTOCOL.md §6, written with only the public helpers of `rtcp-types`
//! (`utils::parser`, `utils::writer`, the traits).

use rtcp_types::{
    prelude::*,
    utils::{parser, writer},
    Packet, RtcpPacket, RtcpParseError, RtcpWriteError, Unknown,
};

/// One third-party family: the parsed view `$View<PT, MIN>` and its builder `$Builder<PT, MIN>`.
/// `$max_count` is what the family's `impl RtcpPacket` says about `MAX_COUNT` (nothing: the
/// trait's default 0x1f).
macro_rules! custom_family {
    (
        $(#[$vdoc:meta])* view $View:ident;
        $(#[$bdoc:meta])* builder $Builder:ident;
        max_count { $($max_count:tt)* }
    ) => {
        $(#[$vdoc])*
        #[derive(Clone, Debug, PartialEq, Eq)]
        pub struct $View<'a, const PT: u8, const MIN: usize> {
            data: &'a [u8],
        }

        impl<'a, const PT: u8, const MIN: usize> RtcpPacket for $View<'a, PT, MIN> {
            const MIN_PACKET_LEN: usize = MIN;
            const PACKET_TYPE: u8 = PT;
            $($max_count)*
        }

        impl<'a, const PT: u8, const MIN: usize> RtcpPacketParser<'a> for $View<'a, PT, MIN> {
            fn parse(data: &'a [u8]) -> Result<Self, RtcpParseError> {
                parser::check_packet::<Self>(data)?;

                if let Some(padding) = parser::parse_padding(data) {
                    let min_len = MIN + padding as usize;
                    if min_len > data.len() {
                        return Err(RtcpParseError::Truncated {
                            expected: min_len,
                            actual: data.len(),
                        });
                    }
                }

                Ok(Self { data })
            }

            #[inline(always)]
            fn header_data(&self) -> [u8; 4] {
                self.data[..4].try_into().unwrap()
            }
        }

        impl<'a, const PT: u8, const MIN: usize> $View<'a, PT, MIN> {
            pub fn padding(&self) -> Option<u8> {
                parser::parse_padding(self.data)
            }

            pub fn body(&self) -> &[u8] {
                &self.data[4..self.data.len() - self.padding().unwrap_or(0) as usize]
            }

            pub fn builder(body: &'a [u8]) -> $Builder<'a, PT, MIN> {
                $Builder {
                    padding: 0,
                    some0: false,
                    count: 0,
                    body,
                }
            }
        }

        $(#[$bdoc])*
        #[derive(Debug)]
        #[must_use = "The builder must be built to be used"]
        pub struct $Builder<'a, const PT: u8, const MIN: usize> {
            padding: u8,
            /// `(pad_style some0)`: `get_padding()` is `Some(0)` rather than `None` for padding 0
            some0: bool,
            /// `(count N)`: the count the writer passes to `write_header_unchecked` (default 0)
            count: u8,
            body: &'a [u8],
        }

        impl<'a, const PT: u8, const MIN: usize> $Builder<'a, PT, MIN> {
            pub fn padding(mut self, padding: u8) -> Self {
                self.padding = padding;
                self
            }

            /// Selects the `some0` style of `get_padding()`.
            pub fn pad_style_some0(mut self) -> Self {
                self.some0 = true;
                self
            }

            /// Sets the header count handed to `write_header_unchecked` as it is (the third-party
            /// writer does not check it against `MAX_COUNT`).
            pub fn count(mut self, count: u8) -> Self {
                self.count = count;
                self
            }

            fn unpadded_len(&self) -> usize {
                (4 + self.body.len()).max(MIN)
            }
        }

        impl<'a, const PT: u8, const MIN: usize> RtcpPacketWriter for $Builder<'a, PT, MIN> {
            fn calculate_size(&self) -> Result<usize, RtcpWriteError> {
                writer::check_padding(self.padding)?;

                if self.body.len() % 4 != 0 {
                    return Err(RtcpWriteError::DataLen32bitMultiple(self.body.len()));
                }

                Ok(self.unpadded_len() + self.padding as usize)
            }

            fn write_into_unchecked(&self, buf: &mut [u8]) -> usize {
                writer::write_header_unchecked::<$View<'static, PT, MIN>>(self.padding, self.count, buf);

                let mut end = 4 + self.body.len();
                buf[4..end].copy_from_slice(self.body);

                let filled = self.unpadded_len();
                if filled > end {
                    buf[end..filled].fill(0);
                    end = filled;
                }

                end += writer::write_padding_unchecked(self.padding, &mut buf[end..]);

                end
            }

            fn get_padding(&self) -> Option<u8> {
                if self.padding == 0 && !self.some0 {
                    return None;
                }

                Some(self.padding)
            }
        }

        impl<'a, const PT: u8, const MIN: usize> TryFrom<&'a Unknown<'a>> for $View<'a, PT, MIN> {
            type Error = RtcpParseError;

            fn try_from(u: &'a Unknown<'a>) -> Result<Self, Self::Error> {
                $View::parse(u.data())
            }
        }

        impl<'a, const PT: u8, const MIN: usize> TryFrom<&'a Packet<'a>> for $View<'a, PT, MIN> {
            type Error = RtcpParseError;

            fn try_from(p: &'a Packet<'a>) -> Result<Self, Self::Error> {
                match p {
                    Packet::Unknown(p) => Self::try_from(p),
                    _ => Err(RtcpParseError::PacketTypeMismatch {
                        actual: p.type_(),
                        requested: PT,
                    }),
                }
            }
        }
    };
}

custom_family! {
    /// A parsed Custom packet (`MAX_COUNT`: the trait's default, 0x1f).
    view Custom;
    /// Custom packet builder.
    builder CustomBuilder;
    max_count {}
}

custom_family! {
    /// A parsed Custom16 packet: the same family with `RtcpPacket::MAX_COUNT` overridden to 16
    /// (request kind `custom16`).
    view Custom16;
    /// Custom16 packet builder.
    builder Custom16Builder;
    max_count { const MAX_COUNT: u8 = 16; }
}

/// `(unit PT)`: a zero-sized third-party writer (a field-less unit struct): always 8 bytes, the
/// header of `Custom<PT, 8>` with count 0 and no padding, followed by four zero bytes.
#[derive(Debug)]
pub struct UnitPkt<const PT: u8>;

impl<const PT: u8> RtcpPacketWriter for UnitPkt<PT> {
    fn calculate_size(&self) -> Result<usize, RtcpWriteError> {
        Ok(8)
    }

    fn write_into_unchecked(&self, buf: &mut [u8]) -> usize {
        writer::write_header_unchecked::<Custom<'static, PT, 8>>(0, 0, buf);
        buf[4..8].fill(0);
        8
    }

    fn get_padding(&self) -> Option<u8> {
        None
    }
}

/// Dispatches from a runtime `pt` of the grid to `$f::<PT, $generics..>($args..)`.
#[macro_export]
macro_rules! with_grid_pt {
    ($pt:expr, $f:ident, [$($g:ty),*], ($($a:expr),*)) => {
        match $pt {
            0 => $f::<0, $($g),*>($($a),*),
            192 => $f::<192, $($g),*>($($a),*),
            199 => $f::<199, $($g),*>($($a),*),
            200 => $f::<200, $($g),*>($($a),*),
            204 => $f::<204, $($g),*>($($a),*),
            207 => $f::<207, $($g),*>($($a),*),
            208 => $f::<208, $($g),*>($($a),*),
            242 => $f::<242, $($g),*>($($a),*),
            255 => $f::<255, $($g),*>($($a),*),
            _ => unreachable!("custom grid PT"),
        }
    };
}

/// Dispatches from a runtime `(pt, min)` of the grid to `$f::<PT, MIN, $generics..>($args..)`.
#[macro_export]
macro_rules! with_grid_min {
    ($pt:literal, $min:expr, $f:ident, [$($g:ty),*], ($($a:expr),*)) => {
        match $min {
            4 => $f::<$pt, 4, $($g),*>($($a),*),
            6 => $f::<$pt, 6, $($g),*>($($a),*),
            8 => $f::<$pt, 8, $($g),*>($($a),*),
            12 => $f::<$pt, 12, $($g),*>($($a),*),
            13 => $f::<$pt, 13, $($g),*>($($a),*),
            20 => $f::<$pt, 20, $($g),*>($($a),*),
            _ => unreachable!("custom grid MIN"),
        }
    };
}

#[macro_export]
macro_rules! with_grid {
    ($pt:expr, $min:expr, $f:ident, $g:tt, $a:tt) => {
        match $pt {
            0 => $crate::with_grid_min!(0, $min, $f, $g, $a),
            192 => $crate::with_grid_min!(192, $min, $f, $g, $a),
            199 => $crate::with_grid_min!(199, $min, $f, $g, $a),
            200 => $crate::with_grid_min!(200, $min, $f, $g, $a),
            204 => $crate::with_grid_min!(204, $min, $f, $g, $a),
            207 => $crate::with_grid_min!(207, $min, $f, $g, $a),
            208 => $crate::with_grid_min!(208, $min, $f, $g, $a),
            242 => $crate::with_grid_min!(242, $min, $f, $g, $a),
            255 => $crate::with_grid_min!(255, $min, $f, $g, $a),
            _ => unreachable!("custom grid PT"),
        }
    };
}
