//! Minimal s-expression reader for the request protocol (PROTOCOL.md §1).

#[derive(Debug, Clone)]
pub enum Sexp {
    Atom(String),
    List(Vec<Sexp>),
}

impl Sexp {
    pub fn atom(&self) -> Option<&str> {
        match self {
            Sexp::Atom(s) => Some(s),
            Sexp::List(_) => None,
        }
    }

    pub fn list(&self) -> Option<&[Sexp]> {
        match self {
            Sexp::Atom(_) => None,
            Sexp::List(l) => Some(l),
        }
    }

    /// The head atom of a list, and the remaining elements.
    pub fn call(&self) -> Option<(&str, &[Sexp])> {
        let l = self.list()?;
        let (h, rest) = l.split_first()?;
        Some((h.atom()?, rest))
    }
}

/// Parses exactly one s-expression from the line (iteratively, no recursion).
pub fn parse(line: &str) -> Option<Sexp> {
    let b = line.as_bytes();
    let mut stack: Vec<Vec<Sexp>> = Vec::new();
    let mut result: Option<Sexp> = None;
    let mut i = 0;
    while i < b.len() {
        let c = b[i];
        match c {
            b' ' | b'\t' | b'\r' | b'\n' => {
                i += 1;
            }
            b'(' => {
                if result.is_some() {
                    return None;
                }
                stack.push(Vec::new());
                i += 1;
            }
            b')' => {
                let done = stack.pop()?;
                let s = Sexp::List(done);
                match stack.last_mut() {
                    Some(top) => top.push(s),
                    None => result = Some(s),
                }
                i += 1;
            }
            _ => {
                if result.is_some() {
                    return None;
                }
                let start = i;
                while i < b.len() && !matches!(b[i], b' ' | b'\t' | b'\r' | b'\n' | b'(' | b')') {
                    i += 1;
                }
                let s = Sexp::Atom(line[start..i].to_string());
                match stack.last_mut() {
                    Some(top) => top.push(s),
                    None => result = Some(s),
                }
            }
        }
    }
    if !stack.is_empty() {
        return None;
    }
    result
}
