#!/bin/bash
# run every property check (default tier quick) in parallel; prints one summary line per check
cd "$(dirname "$0")"
TIER=${1:-quick}
mkdir -p work
./setup.sh >/dev/null 2>&1
for n in 01 02 03 04 05 06 07 08 09 10 11 12 13 14 15 16 17 18 19 20; do
  ( ./check C$n --tier $TIER > work/runall_C$n.log 2>&1; echo "C$n rc=$? $(tail -1 work/runall_C$n.log)" ) &
  # at most 8 at a time
  while [ "$(jobs -r | wc -l)" -ge 8 ]; do sleep 0.5; done
done
wait
grep -h "^VIOLATION\|^KNOWN-FINDING" work/runall_C*.log | cut -c1-200
