#![no_main]
//! Coverage-guided discovery of parser inputs on the tree being checked (thorough tier,
//! tools/fuzzfeed.py).  The target only has to REACH code: every input libFuzzer keeps because it
//! covered something new is afterwards executed by the harness and the Lean model like any other
//! request and judged by the property's oracle.  Panics are left to libFuzzer (`-ignore_crashes=1`
//! keeps going and stores the input, which the harness then replays under catch_unwind).
use libfuzzer_sys::fuzz_target;
use rtcp_types::*;

fn fci<'a, P: RtcpPacketParser<'a>>(_p: &P) {}

fn touch(p: &Packet) {
    match p {
        Packet::App(a) => {
            let _ = (a.ssrc(), a.name(), a.get_name_string(), a.data().len(), a.padding(), a.subtype());
        }
        Packet::Bye(b) => {
            let _ = (b.ssrcs().count(), b.reason().map(|r| r.len()), b.get_reason_string(), b.padding());
        }
        Packet::Rr(r) => {
            let _ = (r.ssrc(), r.padding(), r.n_reports());
            for rb in r.report_blocks() {
                let _ = (rb.ssrc(), rb.fraction_lost(), rb.cumulative_lost(), rb.extended_sequence_number());
            }
        }
        Packet::Sr(s) => {
            let _ = (s.ssrc(), s.ntp_timestamp(), s.rtp_timestamp(), s.packet_count(), s.octet_count(), s.padding());
            for rb in s.report_blocks() {
                let _ = (rb.interarrival_jitter(), rb.last_sender_report_timestamp(), rb.delay_since_last_sender_report_timestamp());
            }
        }
        Packet::Sdes(s) => {
            let _ = s.padding();
            for c in s.chunks() {
                let _ = (c.ssrc(), c.length());
                for i in c.items() {
                    let _ = (i.type_(), i.value().len(), i.get_value_string());
                    if i.type_() == SdesItem::PRIV {
                        let _ = (i.priv_prefix_len(), i.priv_prefix().len());
                    }
                }
            }
        }
        Packet::TransportFeedback(f) => {
            let _ = (f.sender_ssrc(), f.media_ssrc(), f.padding());
            if let Ok(n) = f.parse_fci::<Nack>() {
                let _ = n.entries().count();
            }
        }
        Packet::PayloadFeedback(f) => {
            let _ = (f.sender_ssrc(), f.media_ssrc(), f.padding());
            if let Ok(n) = f.parse_fci::<Fir>() {
                let _ = n.entries().map(|e| (e.ssrc(), e.sequence())).count();
            }
            if let Ok(n) = f.parse_fci::<Sli>() {
                let _ = n.lost_macroblocks().count();
            }
            if let Ok(n) = f.parse_fci::<Rpsi>() {
                let _ = (n.payload_type(), n.bit_string());
            }
            let _ = f.parse_fci::<Pli>();
        }
        Packet::Unknown(u) => {
            let _ = u.data().len();
            let _ = u.try_as::<Bye>().map(|b| b.ssrcs().count());
            let _ = u.try_as::<App>().map(|a| a.data().len());
            let _ = u.try_as::<Sdes>().map(|s| s.chunks().count());
        }
    }
    let _ = (p.version(), p.type_(), p.count(), p.length());
}

fuzz_target!(|data: &[u8]| {
    if let Ok(p) = Packet::parse(data) {
        touch(&p);
        let _ = p.try_as::<SenderReport>().map(|s| fci(&s));
    }
    if let Ok(u) = Unknown::parse(data) {
        touch(&Packet::Unknown(u));
    }
    if let Ok(c) = Compound::parse(data) {
        for p in c {
            if let Ok(p) = p {
                touch(&p);
            }
        }
    }
});
