#!/bin/sh
# Build everything the checks need, offline, from files on disk only.
set -e
cd "$(dirname "$0")"
export CARGO_NET_OFFLINE=true
[ -f harness/Cargo.lock ] || cp /repo/Cargo.lock harness/Cargo.lock
(cd harness && cargo build --offline --release 2>&1 | tail -2)
(cd lean && lake build Rtcp.Props.All Driver driver 2>&1 | grep -E "error|Build completed" || true)
test -x lean/.lake/build/bin/driver
test -x harness/target/release/harness
echo "setup ok"
