#!/usr/bin/env python3
"""Harmless changes (refactors, and behaviour changes where no property speaks) against which the
checks must stay quiet.
  benign.py collect <dir-with-B*/benignN.diff>     copy into /verif/seeded/b-<ID>-<N>/ (patch.diff, BENIGN.md, meta.json)
  benign.py run [name ...]                         apply each to /repo, run ALL 20 quick checks, undo;
                                                   records which checks (wrongly or by broken correspondence) alarm
"""
import json, os, re, subprocess, sys, time, concurrent.futures as cf
VERIF = os.path.dirname(os.path.dirname(os.path.abspath(__file__)))
SEEDED = os.path.join(VERIF, "seeded")
ENV = dict(os.environ, CARGO_NET_OFFLINE="true")
PIDS = [f"C{k:02d}" for k in range(1, 21)]


def sh(cmd, **kw):
    p = subprocess.run(cmd, shell=isinstance(cmd, str), stdout=subprocess.PIPE, stderr=subprocess.STDOUT, text=True, env=ENV, **kw)
    return p.returncode, p.stdout


def collect(root):
    for b in sorted(os.listdir(root)):
        d = os.path.join(root, b)
        if not (os.path.isdir(d) and re.fullmatch(r"[BD]\d+", b)): continue
        for n in (1, 2, 3):
            src = os.path.join(d, f"benign{n}.diff")
            if not os.path.exists(src): continue
            out = os.path.join(SEEDED, f"b-{b}-{n}")
            os.makedirs(out, exist_ok=True)
            open(os.path.join(out, "patch.diff"), "w").write(open(src).read())
            if os.path.exists(os.path.join(d, "BENIGN.md")):
                open(os.path.join(out, "BENIGN.md"), "w").write(open(os.path.join(d, "BENIGN.md")).read())
            mp = os.path.join(out, "meta.json")
            meta = json.load(open(mp)) if os.path.exists(mp) else {}
            meta.update({"name": f"b-{b}-{n}", "kind": "benign", "source": f"{b}/benign{n}.diff"})
            json.dump(meta, open(mp, "w"), indent=1)
            print("collected", out)


def confirm(name):
    """the change applies to HEAD, builds, and the unedited test suite passes (scratch worktree outside /repo and /verif)"""
    scratch = "/tmp/verif-benign-confirm"
    sh(["git", "-C", "/repo", "worktree", "remove", "--force", scratch]); sh(["rm", "-rf", scratch])
    rc, out = sh(["git", "-C", "/repo", "worktree", "add", "--detach", scratch, "HEAD"])
    try:
        rc, out = sh(["git", "-C", scratch, "apply", os.path.join(SEEDED, name, "patch.diff")])
        if rc: return False, "patch does not apply: " + out[-300:]
        rc, out = sh("cargo test --workspace --offline 2>&1 | grep -E '^test result|^error' ", cwd=scratch)
        ok = "FAILED" not in out and not re.search(r"\berror(\[|:)", out) and out.count("test result: ok") >= 2
        return ok, " | ".join(l.strip() for l in out.strip().split("\n"))[:400]
    finally:
        sh(["git", "-C", "/repo", "worktree", "remove", "--force", scratch]); sh(["rm", "-rf", scratch])


def run(name):
    d = os.path.join(SEEDED, name)
    mp = os.path.join(d, "meta.json")
    meta = json.load(open(mp))
    if "tests_pass" not in meta:
        ok, detail = confirm(name)
        meta["tests_pass"] = ok; meta["tests_detail"] = detail
        json.dump(meta, open(mp, "w"), indent=1)
        if not ok:
            print(name, "NOT A VALID CHANGE:", detail); return
    if not meta["tests_pass"]:
        print(name, "skipped (tests do not pass with it)"); return
    rc, out = sh(["git", "-C", "/repo", "status", "--porcelain"])
    if out.strip(): print("/repo is not clean:", out); sys.exit(2)
    rc, out = sh(["git", "-C", "/repo", "apply", os.path.join(d, "patch.diff")])
    if rc: print("patch does not apply:", out); return
    t0 = time.time(); results = {}
    try:
        rc, out = sh("cargo build --offline --release", cwd=os.path.join(VERIF, "harness"))
        if rc:
            results = {p: {"rc": 2, "lines": ["harness build failed: " + out[-400:]]} for p in PIDS}
        else:
            def one(p):
                rc, out = sh([os.path.join(VERIF, "check"), p, "--tier", "quick"], cwd=VERIF)
                lines = [l for l in out.split("\n") if l.startswith(("VIOLATION", "  violated", "KNOWN-FINDING", "ERROR"))]
                return p, {"rc": rc, "lines": [l[:300] for l in lines[:6]]}
            with cf.ThreadPoolExecutor(max_workers=10) as ex:
                for p, r in ex.map(one, PIDS): results[p] = r
    finally:
        sh(["git", "-C", "/repo", "checkout", "--", "."])
    alarms = sorted(p for p, r in results.items() if r["rc"] != 0)
    meta["checks_run"] = {"commit": sh(["git", "-C", VERIF, "rev-parse", "--short", "HEAD"])[1].strip(),
                          "alarms": alarms, "wall_s": round(time.time() - t0, 1),
                          "detail": {p: r for p, r in results.items() if r["rc"] != 0}}
    json.dump(meta, open(mp, "w"), indent=1)
    print(name, "quiet" if not alarms else f"ALARMS {alarms}", flush=True)
    for p in alarms:
        for l in results[p]["lines"][:2]: print("    ", p, l[:220])


if __name__ == "__main__":
    if sys.argv[1] == "collect": collect(sys.argv[2])
    elif sys.argv[1] == "run":
        names = sys.argv[2:] or sorted(n for n in os.listdir(SEEDED) if n.startswith("b-"))
        for n in names: run(n)
