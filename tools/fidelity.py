"""Development tool: full, unprojected comparison of harness and driver transcripts over all
streams (DESIGN §5.4, `./check fidelity`). Not a property check."""
import random
import sys
import time

import common
import gen
import streams


def plan_bufs(size_val, tier, r):
    """buffer specs around the model's announced size"""
    if size_val is None:
        return [(64, "ee"), (0, "00"), (7, "pat")]
    n = size_val
    if n <= 48 and (tier == "thorough" or r.random() < 0.15):
        bufs = []
        for L in range(0, n + 9):
            bufs.append((L, "ee" if L % 2 else "pat"))
        bufs.append((n, "00"))
        return bufs
    bufs = [(n, "ee"), (n, "00"), (n + 5, "pat"), (n + 64, "ee"), (0, "00")]
    if n <= 1024 and r.random() < 0.08:
        # buffer lengths whose low 16 bits are smaller than n
        bufs += [(65536, "ee"), (65536 + max(0, n - 1), "pat"), (131072 + n // 2, "00")]
    if n > 0:
        bufs.append((n - 1, "pat"))
    if n > 8:
        bufs.append((n // 2, "ee"))
    return bufs


def build_requests(cfgs_exprs, tier, r):
    """two-pass: ask the model for the size, then plan the buffers. cfgs_exprs: list of (cfg, expr, meta)"""
    pass1 = [f"(size {e})" for _, e, _ in cfgs_exprs]
    M = common.run_model(pass1)
    out = []
    for (cfg, expr, meta), m in zip(cfgs_exprs, M):
        if cfg.get("_size_only"):
            mm = dict(meta); mm.update({"op": "size", "cfg": cfg, "expr": expr})
            out.append((f"(size {expr})", mm))
            continue
        s = m.get("size") or m.get("w0.res")
        n = None
        if s and s.startswith("ok:"):
            n = int(s[3:])
        elif cfg["k"] in ("chunk", "item") and not gen.violations(cfg):
            n = len(gen.encode(cfg))
        bufs = plan_bufs(n, tier, r)
        if cfg.get("_big") and n and n > 100000:
            bufs = [(n, "ee"), (n - 1, "pat")]       # a quarter of a megabyte each: exactly the size, and one less
        mm = dict(meta); mm.update({"op": "build", "cfg": cfg, "expr": expr, "bufs": bufs})
        out.append((gen.build_req(expr, bufs), mm))
    return out


def all_streams(r, tier):
    reqs = []
    for k in streams.TYPED + ["unknown", "packet"]:
        reqs += streams.typed_stream(k, r, tier)
    for ck in streams.custom_kinds():
        if tier == "thorough" or r.random() < 0.3:
            reqs += streams.typed_stream(ck, r, "quick")
    reqs += streams.sdes_short_bodies(r, tier)
    reqs += streams.sdes_wf_variants(r, 100 if tier == "quick" else 3000)
    reqs += streams.compound_stream(r, tier)
    for k in ("nack", "fir", "sli", "rpsi", "pli"):
        reqs += streams.fci_stream(k, r, tier)
    reqs += streams.rb_stream(r, tier)
    reqs += streams.fb_fci_stream(r, tier)
    reqs += streams.big_inputs(r)
    # pad
    for k in streams.TYPED + ["unknown", "packet"]:
        for _ in range(40 if tier == "quick" else 1000):
            c = streams.wf_cfg_for(k, r); c["padding"] = 0
            if "inner" in c: c["inner"]["padding"] = 0
            b = gen.encode(c)
            n = r.choice([4, 8, 252, 4 * r.randint(1, 63)])
            reqs.append((f"(pad {k} {gen.B(b)} {n})", {"op": "pad", "kind": k, "bytes": b, "n": n, "wf": c}))
    # builds
    ce = []
    for k in ("sr", "rr", "bye", "app", "sdes", "unknown", "fb", "custom", "compound", "chunk", "item", "fci", "pb"):
        for cfg in streams.build_cfgs(k, r, tier):
            style = r.choice(["canon", "canon", "shuffle", "repeat", "owned"])
            ce.append((cfg, gen.render(cfg, r, style), {"style": style}))
    reqs += build_requests(ce, tier, r)
    return reqs


def canon_fir_value(v):
    """sort FIR entry lists"""
    if v.startswith("ok:"):
        items = v[3:].split(",")
        return "ok:" + ",".join(sorted(items))
    return ",".join(sorted(v.split(",")))


def canon_fir_bytes(b):
    """sort the 8-byte FIR entries of every PT=206 FMT=4 packet in a (compound) buffer prefix"""
    out = bytearray(b)
    off = 0
    while off + 4 <= len(b):
        L = 4 * (int.from_bytes(b[off + 2:off + 4], "big") + 1)
        if b[off] >> 6 != 2 or off + L > len(b):
            break
        if b[off + 1] == 206 and (b[off] & 0x1f) == 4:
            pad = b[off + L - 1] if b[off] & 0x20 else 0
            s, e = off + 12, off + L - pad
            if e >= s and (e - s) % 8 == 0:
                ents = sorted(bytes(b[i:i + 8]) for i in range(s, e, 8))
                out[s:e] = b"".join(ents)
        off += L
    return bytes(out)


def canonicalize(tr, req, meta):
    """order-insensitive rendering of everything that came out of the FIR HashMap"""
    if "fir" not in req:
        return tr
    t = dict(tr)
    bare = meta.get("cfg", {}).get("k") == "fir" if meta else False
    sz = t.get("size", "")
    n = int(sz[3:]) if sz.startswith("ok:") else None
    for k, v in tr.items():
        if k.endswith("fci.fir") or (k.endswith("entries") and meta and meta.get("kind") == "fir"):
            t[k] = canon_fir_value(v)
        elif k.endswith(".buf") and n is not None and meta and meta.get("op") == "build":
            b = common.unhex(v)
            if len(b) >= n:
                if bare:
                    head = b"".join(sorted(b[i:i + 8] for i in range(0, n, 8)))
                else:
                    head = canon_fir_bytes(b[:n])
                t[k] = common.hexb(head + b[n:])
    return t


def main():
    tier = sys.argv[1] if len(sys.argv) > 1 else "quick"
    seed = int(sys.argv[2]) if len(sys.argv) > 2 else 1
    r = random.Random(seed)
    t0 = time.time()
    reqs = all_streams(r, tier)
    print(f"{len(reqs)} requests generated in {time.time()-t0:.1f}s")
    t0 = time.time()
    I, M = common.run_both([q for q, _ in reqs])
    print(f"executed in {time.time()-t0:.1f}s")
    bad = 0
    for i, ((q, meta), a, b) in enumerate(zip(reqs, I, M)):
        a = canonicalize(a, q, meta); b = canonicalize(b, q, meta)
        mk = {k: v for k, v in b.items() if not k.startswith(("spec.", "exp."))}
        if a != mk:
            bad += 1
            if bad <= 15:
                print("REQ", i, q[:300])
                for k in sorted(set(a) | set(mk)):
                    if a.get(k) != mk.get(k):
                        print("   ", k, "impl=", str(a.get(k))[:200], "model=", str(mk.get(k))[:200])
    print("mismatching requests:", bad, "of", len(reqs))
    return 1 if bad else 0


if __name__ == "__main__":
    sys.exit(main())
