"""History-sensitive request sequences.

Every API call is a function of its arguments in the model.  A crate that keeps state ACROSS calls
on different packets or builders (a memo of the last parsed datagram keyed on address, length and
header; a remembered `OutputTooSmall(n)` consumed by the next `write_into`; a scratch buffer tagged
with SSRC and count) is wrong only on particular HISTORIES: the same receive buffer reused for a
sibling of the previous datagram, a write into a buffer as long as the size a previous write
reported, two near-identical builders sized one after the other.  The harness reuses one receive
buffer and one send buffer for all requests (PROTOCOL.md §J, §K), and this module appends to the
stream of a property sequences `A, A', A, A'', A …` of siblings: requests that agree with `A` in
everything a careless cache key would look at (kind, length, header word, first and last word,
SSRC, count, sum of words) and differ elsewhere.  Each element is an ordinary request: the
property's oracle and the model comparison judge it like any other, so a state-dependent answer
shows up as a wrong answer on a concrete request (and replays as the short sequence recorded in
meta['history']).
"""
import copy
import struct

import gen
from streams import P

DEP_KEYS = ("group", "tile_reqs", "leaf_reqs", "tile_of", "group_rel")
TWIN = {"rr": ("sr", 200), "sr": ("rr", 201), "tfb": ("pfb", 206), "pfb": ("tfb", 205), "bye": ("app", 204), "app": ("bye", 203)}


def be16(b, o): return struct.unpack(">H", b[o:o + 2])[0]


def tiling(b):
    o, ts = 0, []
    while o < len(b):
        if len(b) - o < 4: return None
        L = 4 * (be16(b, o + 2) + 1)
        if o + L > len(b): return None
        ts.append((o, L)); o += L
    return ts


def parse_variants(kind, b, r):
    """siblings of input `b` for parser `kind`: [(kind', bytes')]"""
    out = []
    n = len(b)
    if n < 8: return out
    ks = kind if isinstance(kind, str) else "custom"
    # 1. the last octet (the padding count of a padded packet), with and without the P bit
    for v in r.sample([0, 1, 4, 8, 12, b[-1] ^ 4, (b[-1] + 4) & 0xff, 0xff], 2):
        if v != b[-1]: out.append((kind, b[:-1] + bytes([v])))
    out.append((kind, bytes([b[0] | 0x20]) + b[1:-1] + bytes([r.choice([4, 8, 4, 1])])))
    if b[0] & 0x20 and n >= 16:
        # same header, same SSRC, same length: a different split between payload and padding
        out.append((kind, b[:-1] + bytes([8 if b[-1] != 8 else 4])))
    # 2. one octet in the middle
    if n > 12:
        i = r.randrange(8, n - 1)
        out.append((kind, b[:i] + bytes([b[i] ^ r.choice([1, 0x80, 0xff])]) + b[i + 1:]))
    # 3. the words after the fixed part in another order (same length, same sum of words)
    if n >= 20:
        body = [b[i:i + 4] for i in range(12, n - n % 4, 4)]
        if len(set(body)) > 1:
            out.append((kind, b[:12] + b"".join(reversed(body)) + b[n - n % 4:]))
            rot = body[1:] + body[:1]
            out.append((kind, b[:12] + b"".join(rot) + b[n - n % 4:]))
    # 4. the twin parser on the same bytes with the twin's type octet (same count, same length)
    if ks in TWIN:
        tk, tpt = TWIN[ks]
        out.append((tk, b[:1] + bytes([tpt]) + b[2:]))
    if ks in ("packet", "unknown"):
        out.append((kind, b[:1] + bytes([b[1] ^ 1]) + b[2:]))
        out.append((kind, b[:1] + bytes([(b[1] + 1) & 0xff]) + b[2:]))
        for pt in r.sample([200, 201, 202, 203, 204, 205, 206, 207, 192, 255], 3):
            if pt != b[1]: out.append((kind, b[:1] + bytes([pt]) + b[2:]))
    # 5. compound: another chain with the same length, first word and last word
    if ks == "compound":
        ts = tiling(b)
        if ts and len(ts) >= 2:
            o, L = ts[-1]
            out.append((kind, b[:o + 3] + bytes([b[o + 3] ^ 1]) + b[o + 4:]))          # last length field off by one
            o, L = ts[1]
            out.append((kind, b[:o + 2] + struct.pack(">H", (be16(b, o + 2) + 1) & 0xffff) + b[o + 4:]))
            # one tile split into two (more packets, same total length, same first word)
            for o, L in ts[1:]:
                if L >= 12:
                    out.append((kind, b[:o] + bytes([0x80, 207, 0, 0, 0x80, b[o + 1]]) + struct.pack(">H", (L - 4) // 4 - 1) + b[o + 8:]))
                    break
            # two adjacent tiles merged into one (fewer packets)
            o, L = ts[0]
            o2, L2 = ts[1]
            if L + L2 <= 262144:
                out.append((kind, b[:2] + struct.pack(">H", (L + L2) // 4 - 1) + b[4:]))
    # 6. SDES: the same chunk start going on further (one more item and a terminator)
    if ks == "sdes" and n % 4 == 0 and n >= 12 and not (b[0] & 0x20):
        ext = b + bytes([1, 1, 0x61, 0])
        out.append((kind, ext[:2] + struct.pack(">H", len(ext) // 4 - 1) + ext[4:]))
    return [(k, x) for k, x in out if x != b or k != kind]


def parse_history(base, r, n):
    cands = [(q, m) for q, m in base if m.get("op") in ("parse", "pad") and not any(k in m for k in DEP_KEYS)
             and 8 <= len(m["bytes"]) <= 2048]
    if not cands: return []
    picks = r.sample(cands, min(n, len(cands)))
    out = []
    for q, m in picks:
        kind, b = m["kind"], m["bytes"]
        vs = parse_variants(kind, b, r)
        if not vs: continue
        seq = []
        def emit(k, x):
            if m["op"] == "pad":
                ks = f"({k[0]} {k[1]} {k[2]})" if isinstance(k, tuple) else k
                seq.append((f"(pad {ks} {gen.B(x)} {m['n']})", {"op": "pad", "kind": k, "bytes": x, "n": m["n"]}))
            else:
                seq.append(P(k, x))
        emit(kind, b)
        if m["op"] == "pad" and len(b) >= 16 and len(b) % 4 == 0 and m["n"] + 4 <= 252 and m["n"] % 4 == 0:
            # the same padded length, header word and SSRC with 4 octets less payload and 4 more padding
            x = b[:2] + struct.pack(">H", (len(b) - 4) // 4 - 1) + b[4:len(b) - 4]
            ks = f"({kind[0]} {kind[1]} {kind[2]})" if isinstance(kind, tuple) else kind
            seq.append((f"(pad {ks} {gen.B(x)} {m['n'] + 4})", {"op": "pad", "kind": kind, "bytes": x, "n": m["n"] + 4}))
            emit(kind, b)
        for k, x in vs[:7]:
            emit(k, x); emit(kind, b)
        if m["op"] == "pad" and len(b) >= 4 and m["n"] % 4 == 0 and 4 <= m["n"] <= 248 and not (b[0] & 0x20):
            # the padded packet parsed directly, then packets of the same length, header word and SSRC
            # whose padding count says something else
            n = m["n"]
            pd = bytes([b[0] | 0x20, b[1]]) + struct.pack(">H", (be16(b, 2) + n // 4) & 0xffff) + b[4:] + bytes(n - 1) + bytes([n])
            seq.append(P(kind, pd))
            for v in (n + 4, max(4, n - 4), 1, n + 8):
                if v != n and v < 256:
                    seq.append(P(kind, pd[:-1] + bytes([v]))); seq.append(P(kind, pd))
        hist = [s[0][:400] for s in seq]
        for j, (qq, mm) in enumerate(seq):
            mm["history"] = hist[max(0, j - 2):j]
            out.append((qq, mm))
    return out


def mutate_cfg(r, c):
    """a configuration of the same shape (kind, SSRC, list lengths, sizes) with other field values"""
    c = copy.deepcopy(c)
    k = c["k"]
    if k in ("sr", "rr"):
        for rb in c.get("rbs", []):
            rb["jit"] = (rb["jit"] + 1 + r.getrandbits(8)) & 0xffffffff; rb["fl"] = (rb["fl"] + 1) & 0xff; rb["esn"] ^= 0x10001
        if k == "sr": c["rtp"] = (c.get("rtp", 0) + 7) & 0xffffffff
    elif k == "bye":
        c["sources"] = [(s + 1) & 0xffffffff for s in c["sources"]]
        if c.get("reason"): c["reason"] = bytes((x ^ 1) if 0x61 <= x <= 0x7a else x for x in c["reason"])
    elif k == "app":
        c["data"] = bytes(x ^ 0x55 for x in c["data"])
    elif k == "unknown":
        c["data"] = bytes(x ^ 0x55 for x in c["data"])
    elif k == "sdes":
        for ch in c["chunks"]:
            for it in ch["items"]:
                it["value"] = bytes((x ^ 1) if 0x61 <= x <= 0x7a else x for x in it["value"])
    elif k in ("tfb", "pfb"):
        f = c["fci"]
        if f["k"] == "nack": f["seqs"] = [(s + 17) & 0xffff for s in f["seqs"]]
        elif f["k"] == "fir": f["entries"] = [(s, (q + 1) & 0xff) for s, q in f["entries"]]
        elif f["k"] == "sli": f["entries"] = [(a, b, (p + 1) & 0x3f) for a, b, p in f["entries"]]
        elif f["k"] == "rpsi": f["data"] = bytes(x ^ 0x55 for x in f["data"])
    elif k == "pb":
        c["inner"] = mutate_cfg(r, c["inner"])
    elif k == "custom":
        c["body"] = bytes(x ^ 0x55 for x in c["body"])
    return c


def size_of(c):
    try:
        return None if gen.violations(c) else len(gen.encode(c))
    except Exception:
        return None


def build_history(base, r, n):
    """writer-side histories: (a) a refused write followed by another builder's write into a buffer
    as long as the refused size; (b) a builder followed by a same-shape sibling; (c) the same inside
    one compound (sizes are computed for all members before any is written)"""
    cands = [(q, m) for q, m in base if m.get("op") == "build"
             and not m["cfg"].get("_big") and m["cfg"]["k"] not in ("chunk", "item", "fci") and len(q) < 6000]
    sized = [(q, m, size_of(m["cfg"])) for q, m in cands]
    sized = [x for x in sized if x[2]]
    if len(sized) < 2: return []
    out = []

    def req(cfg, bufs, note, rt_first=False, style="canon"):
        expr = gen.render(cfg, r, style)
        return (gen.build_req(expr, bufs, rt_first), {"op": "build", "cfg": cfg, "expr": expr, "bufs": bufs, "style": style,
                                                      "history_note": note, "rt_first": rt_first})

    def inter(ca, cb, note, style="canon"):
        ea, eb = gen.render(ca, r, style), gen.render(cb, r, style)
        return (f"(interleave {ea} {eb})", {"op": "interleave", "cfgs": {"a": ca, "b": cb}, "history_note": note})

    def has_fir(c):
        return "'k': 'fir'" in repr(c)

    for _ in range(n):
        (qa, ma, na), (qb, mb, nb) = r.sample(sized, 2)
        if na == nb:
            continue
        # (a) A refused with OutputTooSmall(na); then B into na bytes (too small or too large for B)
        out.append(req(ma["cfg"], [(na, "ee"), (na - 1, "pat")], "refused last", rt_first=True))
        out.append(req(mb["cfg"], [(na, "ee"), (nb, "00"), (nb - 1, "ee")], "first buffer as long as the size just refused"))
        out.append(req(ma["cfg"], [(nb, "ee"), (na, "00")], "and back"))
    for _ in range(n):
        qa, ma, na = r.choice(sized)
        c2 = mutate_cfg(r, ma["cfg"])
        if c2 == ma["cfg"] or size_of(c2) != na: continue
        # (b) same shape, same size, other contents, same buffers
        bufs = [(na, "ee"), (na + 3, "00")]
        st = r.choice(["canon", "default"])
        out.append(req(ma["cfg"], bufs, "sibling 1", style=st)); out.append(req(c2, bufs, "sibling 2", style=st)); out.append(req(ma["cfg"], bufs, "sibling 1 again", style=st))
        # (d) both sized first, both written (unchecked) afterwards
        PK = ("app", "bye", "rr", "sr", "sdes", "unknown", "tfb", "pfb", "pb", "compound", "custom")
        if not has_fir(ma["cfg"]) and ma["cfg"]["k"] in PK and na < 100000:
            out.append(inter(ma["cfg"], c2, "interleaved siblings", st)); out.append(inter(c2, ma["cfg"], "interleaved siblings"))
            (qb, mb, nb) = r.choice(sized)
            if not has_fir(mb["cfg"]) and mb["cfg"]["k"] in PK and nb < 100000: out.append(inter(ma["cfg"], mb["cfg"], "interleaved pair"))
        # (c) both in one compound, in both orders (only unpadded members may be non-last)
        a0, b0 = copy.deepcopy(ma["cfg"]), copy.deepcopy(c2)
        if a0["k"] == "compound": continue
        for x in (a0, b0):
            t = x["inner"] if x["k"] == "pb" else x
            if "padding" in t: t["padding"] = 0
        n0 = size_of(a0)
        if n0 and size_of(b0) == n0 and 2 * n0 < 200000:
            for ms in ([a0, b0], [b0, a0], [a0, b0, a0]):
                cc = {"k": "compound", "members": copy.deepcopy(ms)}
                nn = size_of(cc)
                if nn: out.append(req(cc, [(nn, "ee"), (nn + 4, "00")], "sibling members"))
    return out


def resplit(r, cc):
    """a compound of the same total length and the same first member with one member more: four
    octets taken from a BYE / APP / unknown member, an empty BYE (4 octets) inserted after the first"""
    ms = copy.deepcopy(cc["members"])
    if len(ms) < 2 or any(x["k"] == "compound" for x in ms): return None
    for x in ms[1:]:
        t = x["inner"] if x["k"] == "pb" else x
        if t["k"] == "bye" and len(t["sources"]) >= 1: t["sources"] = t["sources"][:-1]; break
        if t["k"] in ("app", "unknown") and len(t["data"]) >= 4: t["data"] = t["data"][:-4]; break
    else:
        return None
    ms.insert(r.randint(1, len(ms)), {"k": "bye", "padding": 0, "sources": [], "reason": None, "reason_call": "reason"})
    last = ms[-1]; t = last["inner"] if last["k"] == "pb" else last
    if t["k"] == "bye" and not t["sources"] and ms[-2]["k"] != "compound":
        pass
    return {"k": "compound", "members": ms}


def compound_history(base, r, n):
    out = []
    cands = [(q, m) for q, m in base if m.get("op") == "build" and m["cfg"]["k"] == "compound" and len(q) < 6000]
    r.shuffle(cands)
    for q, m in cands:
        if len(out) >= 3 * n: break
        c1 = m["cfg"]
        n1 = size_of(c1)
        if not n1: continue
        c2 = resplit(r, c1)
        if not c2 or size_of(c2) != n1: continue
        for c in (c1, c2, c1):
            expr = gen.render(c, r, "canon")
            bufs = [(n1, "ee"), (n1 + 4, "00")]
            out.append((gen.build_req(expr, bufs), {"op": "build", "cfg": c, "expr": expr, "bufs": bufs, "style": "canon", "history_note": "same length, other split"}))
    return out


def history_stream(pid, base, r, tier):
    n = 60 if tier == "quick" else 400
    return parse_history(base, r, n) + build_history(base, r, n // 2) + compound_history(base, r, n // 2)
