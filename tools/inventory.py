#!/usr/bin/env python3
"""API inventory of /repo/src (non-test part): every `pub fn`, `pub const`, trait-impl `fn` and
`impl Trait for Type` header, as `file: context :: item`.  `inventory.py --write` regenerates
/verif/inventory/api.txt (deliberate act, reviewed against the model); `drift()` is used by
./check to report public items that appeared or vanished since the model was last aligned --
"every public accessor" is then no longer known to be covered, which the evidence records as an
assumption (never a violation)."""
import os
import re
import sys

REPO = os.environ.get("RTCP_REPO", "/repo")
HERE = os.path.dirname(os.path.dirname(os.path.abspath(__file__)))
FILE = os.path.join(HERE, "inventory", "api.txt")


def items():
    out = []
    src = os.path.join(REPO, "src")
    for root, _, files in os.walk(src):
        for f in sorted(files):
            if not f.endswith(".rs"): continue
            p = os.path.join(root, f)
            rel = os.path.relpath(p, src)
            text = open(p).read()
            cut = text.find("#[cfg(test)]")
            if cut >= 0: text = text[:cut]
            ctx, depth, ctx_depth = "", 0, None
            for line in text.split("\n"):
                s = line.strip()
                if s.startswith("//"): continue
                m = re.match(r"(pub\s+)?(unsafe\s+)?impl\b(.*?)\{?\s*$", s)
                if m and depth == 0:
                    ctx = re.sub(r"\s+", " ", m.group(3)).strip()
                    ctx = re.sub(r"<'[a-z_]+>|<'_>", "", ctx)
                    ctx_depth = depth
                    if " for " in ctx: out.append(f"{rel}: impl {ctx}")
                m = re.match(r"pub\s+trait\s+(\w+)", s)
                if m and depth == 0:
                    ctx = "trait " + m.group(1); out.append(f"{rel}: {ctx}")
                m = re.match(r"pub\s+(struct|enum|type)\s+(\w+)", s)
                if m and depth == 0: out.append(f"{rel}: {m.group(1)} {m.group(2)}")
                m = re.match(r"(pub(\([a-z]+\))?\s+)?(const\s+)?fn\s+(\w+)", s)
                if m and depth <= 1:
                    vis = "pub " if (m.group(1) and not m.group(2)) else ""
                    in_trait = ctx.startswith("trait ") or " for " in ctx
                    if vis or (in_trait and depth == 1):
                        out.append(f"{rel}: {ctx + ' :: ' if depth == 1 and ctx else ''}{vis}fn {m.group(4)}")
                m = re.match(r"(pub\s+)?const\s+(\w+)\s*:", s)
                if m and depth <= 1 and (m.group(1) or (" for " in ctx and depth == 1)):
                    out.append(f"{rel}: {ctx + ' :: ' if depth == 1 and ctx else ''}const {m.group(2)}")
                depth += s.count("{") - s.count("}")
                if depth == 0: ctx = ""
    return sorted(set(out))


def drift():
    have = items()
    if not os.path.exists(FILE):
        return {"items": len(have), "added": ["(no inventory/api.txt)"], "removed": []}
    want = [l.split("  =>")[0].rstrip("\n") for l in open(FILE) if l.strip() and not l.startswith("#")]
    return {"items": len(have), "added": sorted(set(have) - set(want))[:40], "removed": sorted(set(want) - set(have))[:40]}


if __name__ == "__main__":
    if "--write" in sys.argv:
        os.makedirs(os.path.dirname(FILE), exist_ok=True)
        old = {}
        if os.path.exists(FILE):
            for l in open(FILE):
                if "  =>" in l:
                    k, v = l.rstrip("\n").split("  =>", 1); old[k] = v
        with open(FILE, "w") as f:
            f.write("# public API of /repo/src (non-test part) as of the last alignment of the model; `=>` model / transcript key\n")
            for it in items():
                f.write(it + ("  =>" + old[it] if it in old else "") + "\n")
        print(len(items()), "items")
    else:
        d = drift()
        print(d)
