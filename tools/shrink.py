"""Failing-input shrinker for `check`.

Given a request on which the oracle of a property reported a failure, search for a SMALLER request
(shorter request text, ties by lexicographic order) on which the same oracle still reports a failure
with the same normalised signature and which is not a known finding.

* parse / pad requests: delta debugging of the byte string (drop 4-byte words, with and without a
  fix-up of the RTCP length / count fields, drop trailing bytes, zero ranges, zero / lower single
  bytes; `pad`: lower N).  A request that carries the configuration its bytes were encoded from
  (`wf`) is additionally shrunk through that configuration.
* build / size requests: delta debugging of the configuration dict (drop list elements, shorten byte
  strings, lower numbers, padding 0, unwrap `pb`, hoist a compound member), re-rendered in the
  canonical call order (and, while that has not reproduced the failure, in the original style).

Candidates are evaluated in batches (one run of the two executors per round).  Greedy: the smallest
failing candidate of a round becomes the current request; when several atomic edits failed in one
round their unions are tried in a follow-up batch (so independent simplifications are taken together).
Everything random derives from the `random.Random` passed in.

Nothing here imports `check`: `evaluate` (and optionally `match_known`) are passed in.
"""
import copy
import re
import time

import gen

DEP_KEYS = ("group", "tile_reqs", "leaf_reqs", "tile_of")
STALE_KEYS = DEP_KEYS + ("wf", "tiles", "member_of")
MAX_Q = 200000

LIST_KEYS = ("rbs", "sources", "chunks", "items", "entries", "members", "seqs")
TEXT_KEYS = ("reason", "value", "name")
SKIP_KEYS = ("k", "mode", "reason_call", "unit", "vec")
NO_HEADER_KINDS = ("rb", "nack", "fir", "sli", "rpsi", "pli")


def signature(f):
    """the normalisation `check` groups failures by"""
    return re.sub(r"[0-9a-f]{6,}|\d+", "#", f)[:80]


def loose_signature(f):
    """the signature with every run of numbers (`#:#:#,#:#:#`, `#;#,#`) collapsed to one `#`: a failure
    text that renders a list keeps this one when the list gets shorter"""
    t = re.sub(r"[0-9a-f]{6,}|\d+", "#", f)
    return re.sub(r"#(?:[,:;.]?#)+", "#", t)[:80]


def smaller(q1, q2):
    return (len(q1), q1) < (len(q2), q2)


def qkey(q):
    return (len(q), q)


# ------------------------------------------------------------------------------------------------
# byte strings (parse / pad)

def kind_str(kind):
    return f"({kind[0]} {kind[1]} {kind[2]})" if isinstance(kind, (tuple, list)) else kind


def packets(b):
    """(offset, length) of the packets the length fields announce, as far as they are plausible"""
    out, o = [], 0
    while o + 4 <= len(b):
        if b[o] >> 6 != 2: break
        L = 4 * (int.from_bytes(b[o + 2:o + 4], "big") + 1)
        if o + L > len(b):
            out.append((o, len(b) - o)); break
        out.append((o, L)); o += L
    return out


def byte_edits(b, op, n, kind):
    """ordered list of atomic edits of a byte string (coarse first)
    ("drop", s, e, fix)  fix: 0 none, 1 length field of the enclosing packet, 2 length and count - 1,
                         100+p length field and the byte at p (a one-byte length in front) minus e-s
    ("zero", s, e)   ("set", i, v)   ("n", v)   ("top",) is not an edit but a flag of a candidate"""
    L = len(b)
    W = (L + 3) // 4
    hdr = not (isinstance(kind, str) and kind in NO_HEADER_KINDS)
    out = []
    if op == "pad" and n:
        for v in (0, 4, (n // 2) & ~3, n - 4, 1):
            if 0 <= v < n and ("n", v) not in out: out.append(("n", v))
    for cut in (L % 4, 1, 2, 3, 4):
        if 0 < cut <= L and ("drop", L - cut, L, 0) not in out: out.append(("drop", L - cut, L, 0))
    size = max(1, W // 2)
    sizes = []
    while True:
        sizes.append(size)
        if size == 1: break
        size = max(1, size // 2)
    pk = packets(b) if hdr else []
    for size in sizes:
        for s in range(0, W, size):
            lo, hi = 4 * s, min(4 * (s + size), L)
            if lo >= hi: continue
            out.append(("drop", lo, hi, 0))
            if hdr and (hi - lo) % 4 == 0 and any(o + 4 <= lo and hi <= o + pl for o, pl in pk):
                out.append(("drop", lo, hi, 1))
                out.append(("drop", lo, hi, 2))
    if hdr:
        # a one-byte length in front of the dropped words (SDES item, BYE reason) lowered with them
        for size in sizes:
            if 4 * size > 252: continue
            for s in range(0, W, size):
                lo, hi = 4 * s, min(4 * (s + size), L)
                d = hi - lo
                if d <= 0 or d % 4 or not any(o + 4 <= lo and hi <= o + pl for o, pl in pk): continue
                ps = [p for p in range(lo - 1, max(3, lo - 257), -1) if b[p] >= d and p + 1 + b[p] >= hi][:2]
                for p in ps: out.append(("drop", lo, hi, 100 + p))
    for size in sizes:
        if size < 2: continue
        for s in range(0, W, size):
            lo, hi = 4 * s, min(4 * (s + size), L)
            if any(b[lo:hi]): out.append(("zero", lo, hi))
    nz = [i for i in range(L) if b[i]]
    for i in nz: out.append(("set", i, 0))
    if hdr:
        for o, _ in pk:
            if b[o] & 0x1f: out.append(("set", o, b[o] & 0xe0))
            if b[o] & 0x20: out.append(("set", o, b[o] & 0xdf))
    for i in nz:
        v = b[i]
        for w in (1, v >> 1, v - 1):
            if 0 < w < v and ("set", i, w) not in out[-3:]: out.append(("set", i, w))
    return out


def apply_bytes(b, n, edits, top):
    """-> (bytes, n)"""
    arr = bytearray(b)
    drops = []
    for e in edits:
        if e[0] == "set": arr[e[1]] = e[2]
        elif e[0] == "zero": arr[e[1]:e[2]] = bytes(e[2] - e[1])
        elif e[0] == "n": n = e[1]
        elif e[0] == "drop": drops.append(e)
    if drops:
        pk = packets(b)
        ranges = sorted((s, e) for _, s, e, _ in drops)
        merged = []
        for s, e in ranges:
            if merged and s <= merged[-1][1]: merged[-1][1] = max(merged[-1][1], e)
            else: merged.append([s, e])
        fixmax = {}
        for _, s, e, f in drops: fixmax[(s, e)] = max(fixmax.get((s, e), 0), f)
        for o, pl in pk:
            fx = [f for (s, e), f in sorted(fixmax.items()) if f and o + 4 <= s and e <= o + pl]
            if not fx: continue
            nbytes = sum(e - s for s, e in merged if o + 4 <= s and e <= o + pl)
            if nbytes and nbytes % 4 == 0:
                lf = int.from_bytes(b[o + 2:o + 4], "big") - nbytes // 4
                if lf >= 0: arr[o + 2:o + 4] = lf.to_bytes(2, "big")
            cnt = sum(1 for f in fx if f == 2)
            if cnt: arr[o] = (arr[o] & 0xe0) | max(0, (arr[o] & 0x1f) - cnt)
        for (s, e), f in sorted(fixmax.items()):
            if f >= 100: arr[f - 100] = max(0, arr[f - 100] - (e - s))
        parts, pos = [], 0
        for s, e in merged:
            parts.append(bytes(arr[pos:s])); pos = e
        parts.append(bytes(arr[pos:]))
        arr = bytearray(b"".join(parts))
    if top and len(arr) >= 4 and arr[0] >> 6 == 2 and len(arr) % 4 == 0 and len(arr) // 4 - 1 <= 0xffff:
        arr[2:4] = (len(arr) // 4 - 1).to_bytes(2, "big")
    return bytes(arr), n


def mk_bytes_req(meta, b, n, wf=None):
    m = {k: v for k, v in meta.items() if k not in STALE_KEYS}
    m["bytes"] = b
    ks = kind_str(meta["kind"])
    if wf is not None: m["wf"] = wf
    if meta["op"] == "parse":
        return f"(parse {ks} {gen.B(b)})", m
    m["n"] = n
    return f"(pad {ks} {gen.B(b)} {n})", m


# ------------------------------------------------------------------------------------------------
# configurations (build / size; `wf` of parse / pad)

def utf8_cut(b, n):
    """b[:n] not ending inside a multi-byte character"""
    while 0 < n < len(b) and (b[n] & 0xc0) == 0x80: n -= 1
    return b[:n]


def int_targets(v, key):
    if key == "padding":
        return [w for w in (0, 4, v - 4, (v // 2) & ~3) if 0 <= w < v]
    return [w for w in (0, 1, v // 2, v - 1) if 0 <= w < v]


def cfg_edits(cfg):
    """ordered list of atomic edits of a configuration:
    ("drop", path_of_list, (indices..)) and ("set", path, value); path () is the root"""
    drops, struct_, zero, lower, content = [], [], [], [], []

    def ints(path, v, key):
        ts = list(dict.fromkeys(int_targets(v, key)))
        for j, w in enumerate(ts):
            (zero if j == 0 else lower).append(("set", path, w))

    def bts(path, v, key):
        v = bytes(v)
        n = len(v)
        if not n: return
        text = key in TEXT_KEYS
        cut = (lambda m: utf8_cut(v, m)) if text else (lambda m: v[:m])
        seen = {v}
        for m in (0, n // 2, n // 4 * 4 if n % 4 else n - 4, n - 1):
            if m < 0: continue
            w = cut(m)
            if w not in seen:
                seen.add(w); (struct_ if m == 0 else lower).append(("set", path, w))
        for w in ((b"a" * n, bytes(n)) if text else (bytes(n),)):
            if w not in seen:
                seen.add(w); content.append(("set", path, w))

    def lst(path, v):
        n = len(v)
        size = max(1, n // 2)
        while n:
            for s in range(0, n, size):
                idx = tuple(range(s, min(n, s + size)))
                drops.append((len(idx), ("drop", path, idx)))
            if size == 1: break
            size = max(1, size // 2)
        if n > 1: drops.append((n, ("drop", path, tuple(range(n)))))
        for i, x in enumerate(v[:40]):
            p = path + (i,)
            if isinstance(x, dict): node(x, p)
            elif isinstance(x, bool): pass
            elif isinstance(x, int): ints(p, x, None)
            elif isinstance(x, (tuple, list)) and all(isinstance(y, int) and not isinstance(y, bool) for y in x):
                t = tuple(x)
                if any(t):
                    zero.append(("set", p, type(x)(0 for _ in t)))
                    for j, y in enumerate(t):
                        for k2, w in enumerate(dict.fromkeys(int_targets(y, None))):
                            (zero if k2 == 0 else lower).append(("set", p, type(x)(t[:j] + (w,) + t[j + 1:])))

    def node(d, path):
        k = d.get("k")
        if k == "pb" and isinstance(d.get("inner"), dict):
            struct_.append(("set", path, d["inner"]))
        if k == "compound" and isinstance(d.get("members"), (list, tuple)) and len(d["members"]) <= 8:
            for m in d["members"]:
                if isinstance(m, dict): struct_.append(("set", path, m))
        for key, v in d.items():
            if key.startswith("_") or key in SKIP_KEYS or (k == "custom" and key in ("pt", "min")): continue
            p = path + (key,)
            if isinstance(v, bool):
                if v: struct_.append(("set", p, False))
            elif isinstance(v, int): ints(p, v, key)
            elif isinstance(v, (bytes, bytearray)):
                bts(p, v, key)
                if key == "reason" or (key == "prefix" and d.get("type") != 8):
                    struct_.append(("set", p, None))
            elif isinstance(v, (list, tuple)):
                if key in LIST_KEYS: lst(p, v)
            elif isinstance(v, dict): node(v, p)

    node(cfg, ())
    drops.sort(key=lambda x: -x[0])       # stable: coarse blocks first
    return [e for _, e in drops] + struct_ + zero + lower + content


def path_key(path):
    return tuple((0, x) if isinstance(x, int) else (1, str(x)) for x in path)


def is_prefix(p, q):
    return len(p) <= len(q) and q[:len(p)] == p


def combine_cfg(edit_lists):
    """union of atomic edits, conflicting ones (a `set` above or at the target of another edit)
    resolved in favour of the earlier"""
    out = []
    for es in edit_lists:
        for e in es:
            if e in out: continue
            bad = False
            for f in out:
                if e[0] == "set" and is_prefix(e[1], f[1]) or f[0] == "set" and is_prefix(f[1], e[1]):
                    bad = True; break
            if not bad: out.append(e)
    return out


def apply_cfg(cfg, edits):
    """-> new configuration or None (inapplicable combination)"""
    try:
        root = [copy.deepcopy(cfg)]

        def parent(path):
            cur = root[0]
            for part in path[:-1]: cur = cur[part]
            return cur

        for e in edits:
            if e[0] != "set": continue
            val = copy.deepcopy(e[2])
            if e[1] == (): root[0] = val
            else:
                par = parent(e[1])
                if isinstance(par, tuple): return None
                par[e[1][-1]] = val
        todo = {}
        for e in edits:
            if e[0] == "drop": todo.setdefault(e[1], set()).update(e[2])
        for path in sorted(todo, key=lambda p: (-len(p), path_key(p))):
            par = parent(path)
            cur = par[path[-1]]
            par[path[-1]] = type(cur)(x for i, x in enumerate(cur) if i not in todo[path]) if isinstance(cur, tuple) \
                else [x for i, x in enumerate(cur) if i not in todo[path]]
        return root[0]
    except (KeyError, IndexError, TypeError, AttributeError):
        return None


def model_size(cfg):
    """what `neighbours()` of check plans the buffers around"""
    return len(gen.encode(cfg)) if not gen.violations(cfg) else 64


def mk_build_req(op, cfg, r, variant, keep=None):
    """variant = (style, "std" | "keep"); std: the buffers `neighbours()` of check uses; keep: the
    buffers `keep` = (size, bufs) of the current request, possible only while the size stays"""
    try:
        style, bm = variant
        expr = gen.render(cfg, r, style)
        if op == "size":
            return f"(size {expr})", {"op": "size", "cfg": cfg, "expr": expr, "style": style}
        n = model_size(cfg)
        if bm == "keep":
            if keep is None or keep[0] != n: return None
            bufs = [tuple(x) for x in keep[1]]
        else:
            bufs = [(n, "ee"), (n, "00"), (n + 5, "pat"), (max(0, n - 1), "pat")]
        return gen.build_req(expr, bufs), {"op": "build", "cfg": cfg, "expr": expr, "bufs": bufs, "style": style}
    except Exception:
        return None


# ------------------------------------------------------------------------------------------------
# candidates of the current request: a list of (family, edits, flag), lazily turned into requests

class State:
    def __init__(self, q, meta, r):
        self.q, self.meta, self.r = q, meta, r
        self.op = meta.get("op")
        self.variants = None        # (style, buffer plan) pairs still in the race, preferred first
        self.keep = None
        if self.op in ("build", "size"):
            st = meta.get("style") or "canon"
            styles = ["canon"] + ([st] if st != "canon" else [])
            self.variants = [(x, "std") for x in styles]
            if self.op == "build" and meta.get("bufs"):
                try:
                    self.keep = (model_size(meta["cfg"]), [tuple(x) for x in meta["bufs"]])
                    self.variants += [(x, "keep") for x in styles]
                except Exception:
                    self.keep = None

    def wf_ok(self):
        m = self.meta
        wf = m.get("wf")
        if not isinstance(wf, dict) or "k" not in wf: return False
        try:
            return gen.encode(wf) == m["bytes"]
        except Exception:
            return False

    def atoms(self):
        """ordered atomic candidates (family, edits, flag)"""
        m = self.meta
        out = []
        if self.op in ("parse", "pad"):
            b, n, kind = m["bytes"], m.get("n"), m["kind"]
            hdr = not (isinstance(kind, str) and kind in NO_HEADER_KINDS)
            if self.wf_ok():
                out += [("wf", (e,), None) for e in cfg_edits(m["wf"])]
            for e in byte_edits(b, self.op, n, kind):
                out.append(("bytes", (e,), False))
                if e[0] == "drop" and e[3] == 0 and hdr: out.append(("bytes", (e,), True))
        else:
            # identity first: the same configuration re-rendered (tells which variants reproduce)
            for v in self.variants: out.append(("cfg", (), v))
            for e in cfg_edits(m["cfg"]):
                for v in self.variants: out.append(("cfg", (e,), v))
        return out

    def make(self, cand):
        """-> (q, meta) or None"""
        fam, edits, flag = cand
        m = self.meta
        try:
            if fam == "bytes":
                b, n = apply_bytes(m["bytes"], m.get("n"), edits, flag)
                return mk_bytes_req(m, b, n)
            if fam == "wf":
                c2 = apply_cfg(m["wf"], edits)
                if c2 is None: return None
                return mk_bytes_req(m, gen.encode(c2), m.get("n"), wf=c2)
            c2 = apply_cfg(m["cfg"], edits)
            if c2 is None: return None
            return mk_build_req(self.op, c2, self.r, flag, self.keep)
        except Exception:
            return None

    def unions(self, failing):
        """candidates made of several failing atomic candidates (smallest first in `failing`)"""
        out = []
        for fam in ("bytes", "wf", "cfg"):
            fs = [c for c in failing if c[0] == fam and c[1]]
            if len(fs) < 2: continue
            ks = []
            k = len(fs)
            while k >= 2:
                ks.append(k); k //= 2
            for k in ks:
                part = fs[:k]
                if fam == "bytes":
                    seen, edits = set(), []
                    for c in part:
                        for e in c[1]:
                            key = ("n",) if e[0] == "n" else (e[0], e[1]) if e[0] == "set" else (e[0], e[1], e[2])
                            if key in seen: continue
                            seen.add(key); edits.append(e)
                    flags = {bool(c[2]) for c in part}
                    for fl in sorted(flags): out.append((fam, tuple(edits), fl))
                else:
                    edits = tuple(combine_cfg([c[1] for c in part]))
                    if len(edits) < 2: continue
                    flags = list(dict.fromkeys(c[2] for c in part))
                    for fl in flags: out.append((fam, edits, fl))
        return out


def skip_reason(q, meta):
    """why a request is left unshrunk (None: it can be shrunk)"""
    dep = [k for k in DEP_KEYS if k in meta]
    if dep: return "its verdict depends on other requests of the run (" + ", ".join(dep) + ")"
    if len(q) > MAX_Q: return f"request text longer than {MAX_Q} characters"
    op = meta.get("op")
    if op in ("parse", "pad"):
        if not isinstance(meta.get("bytes"), (bytes, bytearray)) or "kind" not in meta: return "no byte string in its meta"
    elif op in ("build", "size"):
        if not isinstance(meta.get("cfg"), dict): return "no configuration in its meta"
    else:
        return f"no shrinking for `{op}` requests"
    return None


def shrink(pid, q, meta, failure_sig, known, r, budget_s=20, evaluate=None, match_known=None, log=None,
           seed=0, max_rounds=40, batch=300, failure=None):
    """-> (q_min, meta_min, failures_min, stats) or None when nothing smaller fails.
    evaluate(pid, reqs, seed, known, r, search=False) -> {"failures": [(index, [failure, ..])], ..}
    failure: the failure text `failure_sig` was made from (optional). With it a candidate is also
    accepted when its failure has the same signature up to the lengths of the number lists in it
    (stats["signature"] says which of the two the result has)."""
    if evaluate is None: raise ValueError("shrink needs the evaluate function of check")
    if skip_reason(q, meta): return None
    op = meta.get("op")
    t0 = time.time()
    deadline = t0 + budget_s
    stats = {"rounds": 0, "batches": 0, "candidates": 0, "original_len": len(q), "minimised_len": len(q),
             "accepted": 0, "stopped": "no smaller candidate fails"}
    tried = set()          # request texts already evaluated
    loose_sig = loose_signature(failure) if failure is not None and signature(failure) == failure_sig else None

    def run(reqs, top=True):
        """-> {index: failures with the wanted one(s) first} for the requests that still fail"""
        if not reqs: return {}
        stats["batches"] += 1
        if top: stats["candidates"] += len(reqs)
        try:
            res = evaluate(pid, reqs, seed, known, r, search=False)
        except Exception as e:       # an executor or an oracle choked on some candidate: split
            if len(reqs) == 1 or time.time() > deadline:
                if log: log(f"shrink: candidate dropped ({type(e).__name__}: {str(e)[:120]})")
                return {}
            h = len(reqs) // 2
            out = dict(run(reqs[:h], False))
            for i, v in run(reqs[h:], False).items(): out[i + h] = v
            return out
        ok = {}
        for i, fs in res["failures"]:
            if match_known is not None:
                fs = [f for f in fs if not match_known(pid, reqs[i][1], f, known)]
            hit = [f for f in fs if signature(f) == failure_sig]
            if not hit and loose_sig is not None:
                hit = [f for f in fs if loose_signature(f) == loose_sig]
            if hit: ok[i] = hit + [f for f in fs if f not in hit]
        return ok

    cur = State(q, meta, r)
    cur_fail = None
    hint = 0
    while True:
        atoms = cur.atoms()
        per = max(20, min(batch, 2000000 // max(1, len(cur.q))))
        windows = [atoms[i:i + per] for i in range(0, len(atoms), per)]
        order = list(range(len(windows)))
        hint = min(hint, max(0, len(windows) - 1))
        order = order[hint:] + order[:hint]
        best = None
        for wi in order:
            if stats["rounds"] >= max_rounds: stats["stopped"] = "round limit"; break
            if time.time() > deadline: stats["stopped"] = "time budget"; break
            cands, reqs = [], []
            for c in windows[wi]:
                req = cur.make(c)
                if req is None or req[0] in tried or len(req[0]) > MAX_Q: continue
                # the identity re-rendering may be run although it is not smaller: it tells the style
                if not smaller(req[0], cur.q) and not (c[0] == "cfg" and not c[1] and len(cur.variants) > 1): continue
                tried.add(req[0]); cands.append(c); reqs.append(req)
            if not reqs: continue
            stats["rounds"] += 1
            ok = run(reqs)
            if cur.variants and len(cur.variants) > 1 and ok:
                # settle the rendering: canonical call order and standard buffers if that reproduces
                # the failure, else the first of the other variants that does
                hit = {cands[i][2] for i in ok if cands[i][0] == "cfg"}
                cur.variants = [v for v in cur.variants if v in hit][:1] or cur.variants
            good = sorted((i for i in ok if smaller(reqs[i][0], cur.q)), key=lambda i: qkey(reqs[i][0]))
            if not good: continue
            pool = {reqs[i][0]: (reqs[i], ok[i]) for i in good}
            if len(good) >= 2 and time.time() < deadline:
                ucands, ureqs = [], []
                for c in cur.unions([cands[i] for i in good]):
                    req = cur.make(c)
                    if req is None or req[0] in tried or not smaller(req[0], reqs[good[0]][0]): continue
                    tried.add(req[0]); ucands.append(c); ureqs.append(req)
                if ureqs:
                    uok = run(ureqs)
                    for i, v in uok.items(): pool[ureqs[i][0]] = (ureqs[i], v)
            bq = min(pool, key=qkey)
            best = pool[bq]
            hint = wi
            break
        if best is None: break
        (nq, nmeta), nfail = best
        variants = cur.variants
        cur = State(nq, nmeta, r)
        if variants and len(variants) == 1: cur.variants = variants
        cur_fail = nfail
        stats["accepted"] += 1
        if stats["rounds"] >= max_rounds: stats["stopped"] = "round limit"; break
        if time.time() > deadline: stats["stopped"] = "time budget"; break
    stats["seconds"] = round(time.time() - t0, 2)
    stats["minimised_len"] = len(cur.q)
    stats["signature"] = "same" if cur_fail and signature(cur_fail[0]) == failure_sig else "same up to list lengths"
    if cur_fail is None or not smaller(cur.q, q): return None
    return cur.q, cur.meta, cur_fail, stats
