#!/usr/bin/env python3
"""Run the checks against every seeded change (and every harmless change) in parallel, in private
copies, without touching /repo or /verif/evidence:

  seedsweep.py [--jobs N] [--seeds 1 2 3] [--only PREFIX] [--benign]

Each worker owns /tmp/verif-sweep/wK/{repo,verif}: a git worktree of /repo HEAD and a copy of /verif
whose harness depends on that worktree (RTCP_REPO points the tools at it).  For a seeded change
`m-Cnn-x` the quick check of Cnn runs under every seed; for a harmless change `b-*` all twenty quick
checks run under seed 1.  Writes seeded/SWEEP.json (seeded changes) and seeded/BENIGN.json.
The scratch directory is removed at the end.
"""
import concurrent.futures as cf
import json
import os
import subprocess
import sys
import time

VERIF = os.path.dirname(os.path.dirname(os.path.abspath(__file__)))
ROOT = os.environ.get("VERIF_SWEEP_ROOT", "/tmp/verif-sweep")
ALL = [f"C{k:02d}" for k in range(1, 21)]


def sh(cmd, **kw):
    p = subprocess.run(cmd, shell=isinstance(cmd, str), stdout=subprocess.PIPE, stderr=subprocess.STDOUT, text=True, **kw)
    return p.returncode, p.stdout


def setup(k):
    w = f"{ROOT}/w{k}"
    sh(["git", "-C", "/repo", "worktree", "remove", "--force", f"{w}/repo"])
    sh(["rm", "-rf", w]); os.makedirs(w)
    rc, out = sh(["git", "-C", "/repo", "worktree", "add", "--detach", f"{w}/repo", "HEAD"])
    assert rc == 0, out
    sh(["rsync", "-a", "--exclude", "replays", "--exclude", "work", "--exclude", ".git", VERIF + "/", f"{w}/verif/"])
    sh(["sed", "-i", f's#path = "/repo"#path = "{w}/repo"#', f"{w}/verif/harness/Cargo.toml"])
    sh(["touch"] + [os.path.join(f"{w}/verif/harness/src", f) for f in os.listdir(f"{w}/verif/harness/src")])
    return w


def worker(k, tasks):
    w = setup(k)
    env = dict(os.environ, CARGO_NET_OFFLINE="true", RTCP_REPO=f"{w}/repo")
    res = {}
    for name, pids, seeds in tasks:
        patch = os.path.join(VERIF, "seeded", name, "patch.diff")
        rc, out = sh(["git", "-C", f"{w}/repo", "apply", patch])
        if rc:
            res[name] = {"error": "patch does not apply: " + out[-200:]}; continue
        row = {}
        try:
            for pid in pids:
                for s in seeds:
                    rc, out = sh([f"{w}/verif/check", pid, "--tier", "quick"], cwd=f"{w}/verif", env=dict(env, VERIF_SEED=str(s)))
                    v = [l for l in out.split("\n") if l.startswith("VIOLATION")]
                    if rc == 1 and any("no-failing-input-found" not in l for l in v): verdict = "caught"
                    elif rc == 1: verdict = "caught-without-input"
                    elif rc == 0: verdict = "quiet"
                    else: verdict = f"error(rc={rc}): " + out[-200:]
                    row[f"{pid}/{s}"] = verdict
        finally:
            sh(["git", "-C", f"{w}/repo", "checkout", "--", "."])
        res[name] = row
        print(name, {k: v for k, v in row.items() if v != ("quiet" if name.startswith("b-") else "caught")} or "as expected", flush=True)
    sh(["git", "-C", "/repo", "worktree", "remove", "--force", f"{w}/repo"])
    sh(["rm", "-rf", w])
    return res


def main():
    a = sys.argv[1:]
    jobs, seeds, only, benign = 4, [1, 2, 3], None, False
    i = 0
    while i < len(a):
        if a[i] == "--jobs": jobs = int(a[i + 1]); i += 2
        elif a[i] == "--seeds":
            seeds = []
            i += 1
            while i < len(a) and a[i].isdigit(): seeds.append(int(a[i])); i += 1
        elif a[i] == "--only": only = a[i + 1]; i += 2
        elif a[i] == "--benign": benign = True; i += 1
        else: print(__doc__); sys.exit(2)
    names = sorted(d for d in os.listdir(os.path.join(VERIF, "seeded")) if d.startswith("b-" if benign else "m-") and (not only or d.startswith(only)))
    tasks = []
    for n in names:
        meta = json.load(open(os.path.join(VERIF, "seeded", n, "meta.json")))
        if benign:
            if meta.get("tests_pass") is False: continue
            tasks.append((n, ALL, [1]))
        else:
            tasks.append((n, [meta["breaks_property"]], seeds))
    t0 = time.time()
    slices = [tasks[k::jobs] for k in range(jobs)]
    res = {}
    with cf.ThreadPoolExecutor(max_workers=jobs) as ex:
        for r in ex.map(lambda kv: worker(*kv), [(k, s) for k, s in enumerate(slices) if s]):
            res.update(r)
    sh(["rm", "-rf", ROOT]); sh(["git", "-C", "/repo", "worktree", "prune"])
    out = {"at": time.strftime("%Y-%m-%d %H:%M"), "verif_commit": sh(["git", "-C", VERIF, "rev-parse", "--short", "HEAD"])[1].strip(),
           "seeds": [1] if benign else seeds, "wall_s": round(time.time() - t0), "results": dict(sorted(res.items()))}
    path = os.path.join(VERIF, "seeded", "BENIGN.json" if benign else "SWEEP.json")
    if only and os.path.exists(path):
        # a partial run updates the rows it re-ran and keeps the others (each row keeps no commit of its own:
        # `partial_update` says so)
        old = json.load(open(path))
        merged = dict(old.get("results", {})); merged.update(out["results"])
        out["results"] = dict(sorted(merged.items())); out["partial_update"] = only
    json.dump(out, open(path, "w"), indent=1)
    if benign:
        bad = {n: [k for k, v in r.items() if v != "quiet"] for n, r in res.items()}
        bad = {n: v for n, v in bad.items() if v}
        print(f"{len(res)} harmless changes, {len(res) - len(bad)} quiet on all checks; alarms: {bad}")
    else:
        missed = {n: [k for k, v in r.items() if not str(v).startswith("caught")] for n, r in res.items()}
        missed = {n: v for n, v in missed.items() if v}
        noinput = sum(1 for r in res.values() for v in r.values() if v == "caught-without-input")
        print(f"{len(res)} seeded changes x seeds {seeds}: missed {missed}; caught without a failing input: {noinput} runs")


if __name__ == "__main__":
    main()
