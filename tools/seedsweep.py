#!/usr/bin/env python3
"""For every seeded change: apply it to /repo, run the quick check of the property it was written
against under several seeds, undo it.  Prints which (change, seed) pairs are caught; writes
seeded/SWEEP.json.  usage: seedsweep.py [seeds...] (default 1 2 3)"""
import json, os, subprocess, sys, time
VERIF = os.path.dirname(os.path.dirname(os.path.abspath(__file__)))
ENV = dict(os.environ, CARGO_NET_OFFLINE="true")
seeds = [int(x) for x in sys.argv[1:]] or [1, 2, 3]
names = sorted(d for d in os.listdir(os.path.join(VERIF, "seeded")) if d.startswith("m-"))
res = {}
for name in names:
    d = os.path.join(VERIF, "seeded", name)
    pid = json.load(open(os.path.join(d, "meta.json")))["breaks_property"]
    if subprocess.run(["git", "-C", "/repo", "status", "--porcelain"], capture_output=True, text=True).stdout.strip():
        print("/repo not clean"); sys.exit(2)
    subprocess.run(["git", "-C", "/repo", "apply", os.path.join(d, "patch.diff")], check=True)
    try:
        row = {}
        for s in seeds:
            p = subprocess.run([os.path.join(VERIF, "check"), pid, "--tier", "quick"], cwd=VERIF, env=dict(ENV, VERIF_SEED=str(s)),
                               stdout=subprocess.PIPE, stderr=subprocess.STDOUT, text=True)
            v = [l for l in p.stdout.split("\n") if l.startswith("VIOLATION")]
            row[str(s)] = "caught" if p.returncode == 1 and any("no-failing-input-found" not in l for l in v) else ("caught-by-correspondence-only" if p.returncode == 1 else f"MISSED(rc={p.returncode})")
        res[name] = {"property": pid, "seeds": row}
        print(name, pid, row, flush=True)
    finally:
        subprocess.run(["git", "-C", "/repo", "checkout", "--", "."], check=True)
json.dump({"at": time.strftime("%Y-%m-%d %H:%M"), "commit": subprocess.run(["git", "-C", VERIF, "rev-parse", "--short", "HEAD"], capture_output=True, text=True).stdout.strip(),
           "results": res}, open(os.path.join(VERIF, "seeded", "SWEEP.json"), "w"), indent=1)
