"""Per-property definitions: proof obligations (theorems of Rtcp.Props), the request families the
correspondence check runs, and the projection of the transcripts the property is about
(DESIGN §5.4).  The oracles are in oracles.py."""
import random

import fidelity
import gen
import streams
import history

# ------------------------------------------------------------------------------------------------
# proof obligations: names in namespace Rtcp.Props, by the file they live in

MOD = {
    "WriterContract": ["writeInto_ok", "writeInto_short", "writeInto_err", "writeInto_no_panic", "written_eq_image",
                       "prefill_independent", "tail_untouched", "failed_write_untouched", "length_preserved", "write_again",
                       "write_unchecked_exact"],
    "Writers": ["writeHeader_spec", "writeHeader_panic_iff", "writePadding_spec", "checkPadding_ok_iff", "rb_refines",
                "sr_refines", "rr_refines", "app_refines", "bye_refines", "unknown_refines", "custom_refines",
                "item_refines", "chunk_refines", "sdes_refines", "nack_sorted_empty", "nack_sorted_add", "nack_refines",
                "fir_refines", "sli_refines", "rpsi_refines", "pli_refines", "fb_refines", "compound_refines",
                "compound_size_sum", "compound_accept_iff"],
    "Parsers": ["checkPacket_ok_iff", "checkPacket_no_panic", "checkPacket_err_truthful", "checkPacket_short",
                "checkPacket_length_mismatch", "header_accessors", "sr_parse_ok_iff", "rr_parse_ok_iff",
                "bye_parse_ok_iff", "app_parse_ok_iff", "fb_parse_ok_iff", "unknown_parse_ok_iff",
                "custom_parse_ok_iff", "rb_parse_ok_iff", "parsers_no_panic", "sr_err_truthful", "rr_err_truthful",
                "bye_err_truthful", "app_err_truthful", "fb_err_truthful", "unknown_err_truthful", "rb_err_truthful",
                "sr_accessors", "rr_accessors", "rb_accessors", "app_accessors", "bye_accessors", "fb_accessors",
                "unknown_accessors", "slices_within", "packet_parse_eq", "packet_parse_short", "packet_unknown_data",
                "packet_data", "tryAs_same", "tryAs_mismatch", "tryAs_unknown", "packet_kind"],
    "Sdes": ["sdes_parse_accepts", "sdes_parse_rejects", "sdes_parse_no_panic", "sdes_parse_ok_iff", "sdes_err_truthful",
             "item_accessors", "chunk_length", "refTok_encode", "chunkImage_length", "sdes_roundtrip",
             "ref_rejects_item_overrun", "ref_rejects_priv_overrun", "ref_rejects_nonzero_fill"],
    "Fci": ["nack_entries_eq", "fir_entries_eq", "sli_entries_eq", "rpsi_decode_eq", "rpsi_parse_ok_iff",
            "pli_parse_ok_iff", "fir_parse_ok_iff", "sli_parse_ok_iff", "nack_parse_ok", "fci_parsers_no_panic",
            "parseFci_eq", "nack_roundtrip", "nack_words_increasing", "nack_minimal", "fir_roundtrip",
            "fir_upsert_lookup", "fir_upsert_keys_unique", "sli_roundtrip", "rpsi_roundtrip", "compound_parse_ok_iff",
            "compound_parse_no_panic", "compound_err_truthful", "tiling_sound", "compound_iter", "compound_fused"],
    "Rules": ["rb_rules", "sr_rules", "rr_rules", "bye_rules", "app_rules", "item_rules", "chunk_rules", "sdes_rules",
              "unknown_rules", "custom_rules", "rpsi_rules", "fci_rules", "fb_rules", "sr_size_mod4", "rr_size_mod4",
              "bye_size_mod4", "app_size_mod4", "sdes_size_mod4", "unknown_size_mod4", "fb_size_mod4", "sizes_bounded"],
    "RoundTrip": ["rb_roundtrip", "sr_roundtrip", "rr_roundtrip", "bye_roundtrip", "app_roundtrip", "fb_roundtrip",
                  "empty_fir_refused", "empty_sli_refused", "unknown_roundtrip", "custom_roundtrip"],
    "Padding": ["addPadding_shape", "sr_pad_transparent", "rr_pad_transparent", "bye_pad_transparent",
                "app_pad_transparent", "fb_pad_transparent", "sdes_pad_transparent", "custom_pad_transparent"],
    "Compose": ["tiling_flatten", "tiling_length_le", "compound_parse_back", "compound_parse_back_all", "sr_image_tile",
                "rr_image_tile", "bye_image_tile", "app_image_tile", "sdes_image_tile", "fb_image_tile",
                "unknown_image_tile", "custom_image_tile"],
    "Total": ["entry_points_total", "parseFci_total", "header_accessors_total", "sr_accessors_total",
              "rr_accessors_total", "rb_accessors_total", "app_accessors_total", "bye_accessors_total",
              "fb_accessors_total", "sdes_accessors_total", "fci_iterators_finish", "rpsi_accessors_total",
              "tryAs_total", "compound_iterator_total"],
    "Layout": ["packet_length", "packet_header", "packet_body_trailer", "be_layout", "chunk_layout"],
    "Setters": ["rb_setters_commute", "rb_setter_last_wins", "sr_setters_commute", "sr_setter_last_wins", "rr_setters",
                "adders_preserve_order", "app_setters", "bye_setters", "bye_reason_owned_eq", "sdes_setters",
                "sdes_item_owned_eq", "unknown_setters", "fb_setters", "rpsi_setters", "nack_add_idempotent",
                "nack_add_comm", "nack_add_mem", "fir_add_last_wins", "fir_add_comm", "fir_image_perm",
                "packet_builder_forwards", "compound_singleton"],
    "Calls": ["rb_run", "sr_run", "rr_run", "app_run", "bye_run", "unknown_run", "item_run", "chunk_run", "sdes_run",
              "fb_run", "rpsi_run", "nack_run", "nack_run_same_set", "fir_run", "sli_run", "sr_same_summary",
              "bye_same_summary", "sr_padding_anywhere"],
    "Fast": ["fast_nack_eq", "fast_fir_eq", "fast_sli_eq", "fast_compound_eq", "fast_compoundParse_eq", "fast_sdesParse_eq",
             "fast_packetParse_eq", "fast_kindParse_eq"],
    "CompoundE2E": ["member_refines", "member_accepted", "compound_end_to_end"],
    "NestedE2E": ["node_image", "tree_refines", "tree_leaves_accepted", "nested_end_to_end"],
    "Written": ["writeInto_ok_inv", "member_written", "sr_written", "rr_written", "bye_written", "app_written", "sdes_written", "fb_written"],
    "FastWrite": ["fast_writerVia_eq", "fast_sdesWriter_eq", "fast_chunkWriter_eq", "fast_chunkRun_eq"],
    "EndToEnd": ["fb_nack_end_to_end", "fb_fir_end_to_end", "fb_sli_end_to_end", "fb_rpsi_end_to_end", "fb_pli_end_to_end",
                 "fci_err_truthful", "parseFci_err_truthful", "packet_err_truthful", "packet_pad_transparent",
                 "compound_iter_offsets", "sdes_sizes_bounded"],
}
WHERE = {t: m for m, ts in MOD.items() for t in ts}
MOD_FAST = MOD["Fast"]

REFINES = ["rb_refines", "sr_refines", "rr_refines", "app_refines", "bye_refines", "unknown_refines", "custom_refines",
           "item_refines", "chunk_refines", "sdes_refines", "nack_sorted_empty", "nack_sorted_add", "nack_refines",
           "fir_refines", "sli_refines", "rpsi_refines", "pli_refines", "fb_refines", "compound_refines"]
RULES = ["rb_rules", "sr_rules", "rr_rules", "bye_rules", "app_rules", "item_rules", "chunk_rules", "sdes_rules",
         "unknown_rules", "custom_rules", "rpsi_rules", "fci_rules", "fb_rules"]

OBLIGATIONS = {
    "C01": MOD["Total"] + ["checkPacket_no_panic", "parsers_no_panic", "sdes_parse_no_panic", "fci_parsers_no_panic",
                           "compound_parse_no_panic", "compound_iter", "compound_fused", "item_accessors", "chunk_length",
                           "nack_entries_eq", "fir_entries_eq", "sli_entries_eq", "tiling_length_le", "sdes_sizes_bounded"] + MOD_FAST,
    "C02": ["sr_written", "rr_written", "writeInto_ok_inv", "rb_roundtrip", "sr_roundtrip", "rr_roundtrip", "rb_refines", "sr_refines", "rr_refines", "written_eq_image",
            "writeInto_ok", "rb_rules", "sr_rules", "rr_rules"],
    "C03": ["sdes_written", "sdes_roundtrip", "refTok_encode", "item_refines", "chunk_refines", "sdes_refines", "written_eq_image",
            "writeInto_ok", "sdes_rules", "item_rules", "chunk_rules", "item_accessors"] + MOD["FastWrite"],
    "C04": ["bye_written", "app_written", "writeInto_ok_inv", "bye_roundtrip", "app_roundtrip", "bye_refines", "app_refines", "written_eq_image", "writeInto_ok",
            "bye_rules", "app_rules"],
    "C05": ["fb_written", "fb_roundtrip", "fb_refines", "nack_roundtrip", "fir_roundtrip", "sli_roundtrip", "rpsi_roundtrip",
            "fir_upsert_lookup", "fir_upsert_keys_unique", "nack_entries_eq", "fir_entries_eq", "sli_entries_eq",
            "rpsi_decode_eq", "pli_parse_ok_iff", "empty_fir_refused", "empty_sli_refused", "fb_rules", "fci_rules",
            "nack_sorted_empty", "nack_sorted_add", "written_eq_image", "writeInto_ok",
            "fb_nack_end_to_end", "fb_fir_end_to_end", "fb_sli_end_to_end", "fb_rpsi_end_to_end", "fb_pli_end_to_end"],
    "C06": REFINES + ["writeInto_ok", "writeInto_short", "writeInto_err", "writeInto_no_panic", "length_preserved",
                      "sr_size_mod4", "rr_size_mod4", "bye_size_mod4", "app_size_mod4", "sdes_size_mod4",
                      "unknown_size_mod4", "fb_size_mod4", "compound_size_sum"] + MOD["FastWrite"],
    "C07": REFINES + ["written_eq_image", "writeHeader_spec", "writePadding_spec", "nack_roundtrip",
                      "nack_words_increasing", "nack_minimal", "fir_roundtrip", "fir_image_perm", "sizes_bounded"]
           + MOD["Layout"],
    "C08": ["checkPacket_ok_iff", "header_accessors", "sr_parse_ok_iff", "rr_parse_ok_iff", "bye_parse_ok_iff",
            "app_parse_ok_iff", "fb_parse_ok_iff", "unknown_parse_ok_iff", "sdes_parse_accepts", "packet_parse_eq",
            "packet_kind", "packet_data"],
    "C09": ["sr_accessors", "rr_accessors", "rb_accessors", "app_accessors", "bye_accessors", "fb_accessors",
            "unknown_accessors", "slices_within", "rb_parse_ok_iff", "rb_roundtrip", "sr_roundtrip", "rr_roundtrip",
            "bye_roundtrip", "app_roundtrip", "fb_roundtrip", "unknown_roundtrip"],
    "C10": ["sdes_parse_accepts", "sdes_parse_rejects", "sdes_parse_no_panic", "sdes_parse_ok_iff", "item_accessors",
            "chunk_length", "refTok_encode", "chunkImage_length", "sdes_roundtrip", "ref_rejects_item_overrun",
            "ref_rejects_priv_overrun", "ref_rejects_nonzero_fill", "fast_sdesParse_eq"],
    "C11": ["compound_parse_ok_iff", "compound_parse_no_panic", "tiling_sound", "compound_iter", "compound_fused",
            "tiling_length_le", "compound_iterator_total", "compound_iter_offsets", "fast_compound_eq", "fast_compoundParse_eq"],
    "C12": ["packet_parse_eq", "packet_parse_short", "packet_unknown_data", "packet_data", "tryAs_same",
            "tryAs_mismatch", "tryAs_unknown", "packet_kind", "fast_packetParse_eq", "fast_kindParse_eq"],
    "C13": MOD["Padding"] + ["packet_pad_transparent"],
    "C14": ["compound_refines", "compound_size_sum", "compound_accept_iff", "compound_singleton"] + MOD["Compose"] + MOD["CompoundE2E"] + MOD["NestedE2E"],
    "C15": ["parseFci_eq", "nack_entries_eq", "fir_entries_eq", "sli_entries_eq", "rpsi_decode_eq", "rpsi_parse_ok_iff",
            "pli_parse_ok_iff", "fir_parse_ok_iff", "sli_parse_ok_iff", "nack_parse_ok", "fci_parsers_no_panic",
            "fast_nack_eq", "fast_fir_eq", "fast_sli_eq"],
    "C16": RULES + ["compound_accept_iff", "sizes_bounded", "checkPadding_ok_iff"],
    "C17": REFINES + ["writeInto_ok_inv", "member_written", "prefill_independent", "tail_untouched", "failed_write_untouched", "writeInto_err",
                      "writeInto_short", "write_again", "write_unchecked_exact"],
    "C18": ["checkPacket_err_truthful", "checkPacket_short", "checkPacket_length_mismatch", "sr_err_truthful",
            "rr_err_truthful", "bye_err_truthful", "app_err_truthful", "fb_err_truthful", "unknown_err_truthful",
            "rb_err_truthful", "sdes_err_truthful", "compound_err_truthful", "packet_parse_short", "packet_parse_eq",
            "fci_err_truthful", "parseFci_err_truthful", "packet_err_truthful"],
    "C19": ["checkPacket_ok_iff", "checkPacket_no_panic", "writeHeader_spec", "writeHeader_panic_iff",
            "writePadding_spec", "checkPadding_ok_iff", "custom_refines", "unknown_refines", "custom_roundtrip",
            "unknown_roundtrip", "custom_parse_ok_iff", "custom_rules", "unknown_rules", "tryAs_unknown",
            "compound_refines", "custom_image_tile", "unknown_image_tile", "compound_parse_back",
            "custom_pad_transparent"],
    "C20": MOD["Setters"] + MOD["Calls"],
}

TITLES = {}


def modules_for(pid):
    return sorted({"Rtcp.Props." + WHERE[t] for t in OBLIGATIONS[pid]})


# ------------------------------------------------------------------------------------------------
# request families

def parse_typed(r, tier, kinds=None):
    reqs = []
    for k in kinds or (streams.TYPED + ["unknown", "packet"]):
        reqs += streams.typed_stream(k, r, tier)
    return reqs


def parse_custom(r, tier, frac=0.3):
    reqs = []
    for ck in streams.custom_kinds():
        if tier == "thorough" or r.random() < frac:
            reqs += streams.typed_stream(ck, r, "quick")
    return reqs


def parse_sdes(r, tier):
    return (streams.sdes_many_chunks(r) + streams.sdes_big_chunks(r) + streams.sdes_priv_utf8(r) + streams.typed_stream("sdes", r, tier) + streams.sdes_short_bodies(r, tier)
            + streams.sdes_wf_variants(r, 600 if tier == "quick" else 6000))


def parse_fci(r, tier):
    reqs = []
    for k in ("nack", "fir", "sli", "rpsi", "pli"):
        reqs += streams.fci_stream(k, r, tier)
    reqs += streams.fb_fci_stream(r, tier)
    return reqs


MANY_TILES = True      # enabled once the driver's Compound.parse is linear (Fast.compoundParse)


def parse_compound(r, tier):
    """compound requests, each followed by `(parse packet tile)` for its tiles (the oracle of C11
    compares each yielded item with the generic parser run on the tile alone)"""
    import oracles
    out = []
    for q, m in [x for x in streams.length_patterns(r) if x[1]["kind"] == "compound"] + (streams.many_tiles(r) if MANY_TILES else []) + streams.compound_stream(r, tier):
        ts = oracles.ref_tiling(m["bytes"])
        idx = len(out)
        out.append((q, m))
        if ts and len(ts) <= 8:
            m["tile_reqs"] = []
            for (o, L) in ts:
                m["tile_reqs"].append(len(out))
                out.append(streams.P("packet", m["bytes"][o:o + L], tile_of=idx))
    return out


def report_ext(r, tier):
    out = []
    for q, k in streams.report_extensions(r, 60 if tier == "quick" else 600):
        out.append(streams.P(k, q)); out.append(streams.P("packet", q))
        n = r.choice([4, 8, 252, 4 * r.randint(1, 63)])
        out.append((f"(pad {k} {gen.B(q)} {n})", {"op": "pad", "kind": k, "bytes": q, "n": n}))
    return out


def parse_all(r, tier, big=True):
    return (streams.bye_reason_lengths(r) + [x for x in streams.bye_empty_reason(r) if x[1]["op"] == "parse"] + streams.midsize_padded(r) + streams.congruent_lengths(r) + streams.length_patterns(r) + streams.sdes_many_chunks(r) + streams.sdes_big_chunks(r) + streams.sdes_priv_utf8(r) + report_ext(r, tier) + parse_typed(r, tier) + parse_custom(r, tier) + streams.sdes_short_bodies(r, tier)
            + streams.sdes_wf_variants(r, 300 if tier == "quick" else 6000) + parse_compound(r, tier)
            + parse_fci(r, tier) + streams.rb_stream(r, tier) + (streams.big_inputs(r) if big else []))


def pad_stream(r, tier, kinds=None):
    reqs = []
    kinds = kinds or (streams.TYPED + ["unknown", "packet"])
    if "bye" in kinds:
        reqs += streams.bye_empty_reason(r)
    for k in kinds:
        for _ in range(250 if tier == "quick" else 3000):
            c = streams.wf_cfg_for(k, r)
            c["padding"] = 0
            if "inner" in c: c["inner"]["padding"] = 0
            b = gen.encode(c)
            for n in ([r.choice([4, 8, 252, 4 * r.randint(1, 63)])] if tier == "quick" else [4, 252, 4 * r.randint(1, 63)]):
                reqs.append((f"(pad {k} {gen.B(b)} {n})", {"op": "pad", "kind": k, "bytes": b, "n": n, "wf": c}))
    # every legal amount on one packet of each kind
    for k in kinds:
        c = streams.wf_cfg_for(k, r); c["padding"] = 0
        if "inner" in c: c["inner"]["padding"] = 0
        b = gen.encode(c)
        for n in range(0, 256, 4 if tier == "quick" else 1):
            reqs.append((f"(pad {k} {gen.B(b)} {n})", {"op": "pad", "kind": k, "bytes": b, "n": n, "wf": c}))
    return reqs


def big_light(r):
    """the inputs beyond 64 KiB minus the three on which the model's iterators are quadratic
    (a 64 KiB NACK list, directly and inside a transport feedback packet, and a 64 KiB SDES): those
    run in C01 and C15 only"""
    return [(q, m) for q, m in streams.big_inputs(r) if True]


def pad_big(r):
    """padding added to packets of 64 KiB and more (the padding count then sits beyond offset 65535)"""
    import struct
    reqs = []
    for kind, mk in (("app", lambda n: {"k": "app", "ssrc": gen.r_u32(r), "name": b"BIG!", "padding": 0, "subtype": 3, "data": bytes(r.getrandbits(8) | 1 for _ in range(n))}),
                     ("unknown", lambda n: {"k": "unknown", "type": 207, "data": bytes(r.getrandbits(8) | 1 for _ in range(n)), "padding": 0, "count": 5}),
                     ("pfb", lambda n: {"k": "pfb", "mode": "owned", "fci": {"k": "rpsi", "pt": 96, "data": bytes(r.getrandbits(8) | 1 for _ in range(n - 2)), "overrun": 3},
                                        "padding": 0, "sender": 1, "media": 2}),
                     ("packet", lambda n: {"k": "app", "ssrc": 9, "name": b"pkt_", "padding": 0, "subtype": 0, "data": bytes(r.getrandbits(8) | 1 for _ in range(n))})):
        for n in (65524, 65528, 65532, 4 * r.randint(16400, 25000), 100000):
            c = mk(n)
            b = gen.encode(c)
            for pad in (4, r.choice([8, 12, 252])):
                reqs.append((f"(pad {kind} {gen.B(b)} {pad})", {"op": "pad", "kind": kind, "bytes": b, "n": pad, "wf": c}))
    return reqs


ALL_BUILD = ("sr", "rr", "bye", "app", "sdes", "unknown", "fb", "custom", "compound", "chunk", "item", "fci", "pb")


def build_stream(r, tier, kinds=ALL_BUILD, styles=("canon", "canon", "minimal", "shuffle", "repeat", "owned", "probe", "probe"), big=None):
    """big: include the configurations around the 65536-word limit (slow: hundreds of kilobytes each);
    default: only in the thorough tier"""
    ce = []
    big = (tier == "thorough") if big is None else big
    for k in kinds:
        for cfg in streams.build_cfgs(k, r, tier):
            if cfg.get("_big") and not big: continue
            # "light": only the packets at the 65536-word limit that are cheap to write (APP and
            # unknown packets with a long all-zero payload), two buffers each
            if cfg.get("_big") and big == "light" and not cfg.get("_light") and (cfg["k"] not in ("app", "unknown") or cfg.get("_size_only")): continue
            style = r.choice(styles)
            ce.append((cfg, gen.render(cfg, r, style), {"style": style}))
    ce += twin_setter_history(r, kinds)
    return fidelity.build_requests(ce, tier, r)


def twin_setter_history(r, kinds):
    """a value set twice, through either of the borrowed / owned twins of its setter, for every pair
    of length residues mod 4 (and, for RPSI, every pair of unused-bit counts at the ends of their
    range): what a setter derives from the value (alignment, word count, an owned copy) must be
    derived again by its twin and must not survive from the earlier call"""
    ce = []
    B = gen.B
    if "bye" in kinds:
        for l1 in range(0, 8):
            for l2 in range(0, 8):
                for c1 in ("reason", "reason_owned"):
                    for c2 in ("reason", "reason_owned"):
                        if c1 == c2 and r.random() < 0.5: continue
                        r1, r2 = gen.r_text(r, l1), gen.r_text(r, l2)
                        p_ = r.choice([0, 0, 4])
                        ns = r.choice([0, 1, 2])
                        cfg = {"k": "bye", "padding": p_, "sources": list(range(1, ns + 1)), "reason": r2 if l2 else None}
                        if not l2: cfg["reason"] = b""
                        calls = [f"(padding {p_})"] + [f"(add_source {i})" for i in range(1, ns + 1)] + [f"({c1} {B(r1)})", f"({c2} {B(r2)})"]
                        ce.append((cfg, "(bye " + " ".join(calls) + ")", {"style": "twin"}))
    if "fb" in kinds or "pfb" in kinds:
        for l1 in range(0, 6):
            for l2 in range(0, 6):
                for k1, k2 in ((0, 0), (8, 0), (0, 8), (8, 8), (3, 5)):
                    c1, c2 = r.choice([("native_data", "native_data_owned"), ("native_data_owned", "native_data"),
                                       ("native_data_owned", "native_data_owned"), ("native_data", "native_data")])
                    if l1 == 0: k1 = 0
                    if l2 == 0: k2 = 0
                    d1, d2 = bytes([0xff]) * l1, bytes(r.getrandbits(8) | 1 for _ in range(l2))
                    cfg = {"k": "pfb", "mode": "owned", "fci": {"k": "rpsi", "pt": 96, "data": d2, "overrun": k2}, "padding": 0, "sender": 1, "media": 2}
                    fci = f"(rpsi (payload_type 96) ({c1} {B(d1)} {k1}) ({c2} {B(d2)} {k2}))"
                    ce.append((cfg, f"(pfb owned {fci} (padding 0) (sender_ssrc 1) (media_ssrc 2))", {"style": "twin"}))
    return ce


def group_stream(r, tier):
    """C20: for each configuration the canonical call sequence followed by other call sequences
    reaching the same final configuration; meta['group'] is the index of the canonical one"""
    ce = []
    n = 120 if tier == "quick" else 1500
    for k in ("sr", "rr", "bye", "app", "sdes", "unknown", "fb", "custom", "pb", "compound", "chunk", "item", "fci"):
        cfgs = [c for c in streams.build_cfgs(k, r, "quick") if not c.get("_big")]
        r.shuffle(cfgs)
        keep = [c for c in cfgs if c.get("_rpsi_sweep") or (c.get("_keep") and (r.random() < 0.5 or any(it["type"] == 0 for ch in c.get("chunks", []) for it in ch["items"])))]
        for cfg in cfgs[:n] + [c for c in keep if c not in cfgs[:n]]:
            base = len(ce)
            ce.append((cfg, gen.render(cfg, r, "canon"), {"style": "canon", "group_rel": 0}))
            for style in ("shuffle", "repeat", "owned", "probe", "minimal"):
                e = gen.render(cfg, r, style)
                ce.append((cfg, e, {"style": style, "group_rel": len(ce) - base}))
    reqs = fidelity.build_requests(ce, "quick", r)
    for i, (q, m) in enumerate(reqs):
        m["group"] = i - m["group_rel"]
        # same buffers as the canonical member, so that the bytes are comparable
        if m["group"] != i and m.get("op") == "build":
            m["bufs"] = reqs[m["group"]][1]["bufs"]
            reqs[i] = (gen.build_req(m["expr"], m["bufs"]), m)
    return reqs


def of_kinds(reqs, kinds):
    def leafk(c):
        return leafk(c["inner"]) if c["k"] == "pb" else c["k"]
    return [(q, m) for q, m in reqs if leafk(m["cfg"]) in kinds]


def streams_for(pid, r, tier):
    """the request families of a property, followed by history-sensitive sequences of siblings of
    a sample of them (tools/history.py)"""
    base = base_streams_for(pid, r, tier)
    if pid == "C20":
        return base           # verdicts are relative to a group's canonical member
    return base + history.history_stream(pid, base, r, tier)


def base_streams_for(pid, r, tier):
    if pid == "C01":
        return parse_all(r, tier) + pad_stream(r, "quick") + pad_big(r)
    if pid == "C02":
        return build_stream(r, tier, ("sr", "rr")) + of_kinds(build_stream(r, "quick", ("pb",)), ("sr", "rr"))
    if pid == "C03":
        return build_stream(r, tier, ("sdes",), big="light" if tier == "quick" else True) + of_kinds(build_stream(r, "quick", ("pb",)), ("sdes",))
    if pid == "C04":
        return build_stream(r, tier, ("bye", "app"), big="light" if tier == "quick" else True) + of_kinds(build_stream(r, "quick", ("pb",)), ("bye", "app"))
    if pid == "C05":
        return build_stream(r, tier, ("fb",), big="light" if tier == "quick" else True) + of_kinds(build_stream(r, "quick", ("pb",)), ("tfb", "pfb"))
    if pid == "C17":
        # the two writer helpers the builders are made of are part of what C17 is about: what they
        # write at the position they are given, and that they touch nothing else
        return ([x for x in streams.helper_stream(r, tier) if x[1]["name"] in ("write_padding", "write_header")]
                + build_stream(r, tier, big=(True if tier == "thorough" else "light")))
    if pid in ("C06", "C07", "C16"):
        return build_stream(r, tier, big=(True if pid == "C16" or tier == "thorough" else "light"))
    if pid == "C08":
        return streams.midsize_padded(r) + streams.congruent_lengths(r) + streams.length_patterns(r) + report_ext(r, tier) + parse_typed(r, tier) + parse_custom(r, tier, 0.15) + pad_stream(r, "quick") + big_light(r)
    if pid == "C09":
        return (report_ext(r, tier) + parse_typed(r, tier, ["sr", "rr", "app", "bye", "tfb", "pfb", "unknown", "packet"])
                + [x for x in streams.bye_empty_reason(r) if x[1]["op"] == "parse"] + streams.bye_reason_lengths(r) + streams.rb_stream(r, tier))
    if pid == "C10":
        return parse_sdes(r, tier) + pad_stream(r, "quick", ["sdes"])
    if pid == "C11":
        return parse_compound(r, tier)
    if pid == "C12":
        out = [x for x in streams.length_patterns(r) + streams.congruent_lengths(r) + streams.midsize_padded(r) if x[1]["kind"] == "packet"] + streams.typed_stream("packet", r, tier)
        for k in streams.TYPED + ["unknown"]:
            for _, m in streams.structured(k, r, 150 if tier == "quick" else 1500):
                out.append(streams.P("packet", m["bytes"]))
                # `Unknown::parse` frames any type; its conversions must say what the typed parser says
                if r.random() < 0.5: out.append(streams.P("unknown", m["bytes"]))
        return out
    if pid == "C13":
        return [x for x in report_ext(r, tier) if x[1]["op"] == "pad"] + pad_stream(r, tier) + pad_big(r)
    if pid == "C14":
        out = []
        for q, m in build_stream(r, tier, ("compound",), big=True):
            out.append((q, m))
            if not gen.violations(m["cfg"]):
                leaves = gen.flatten(m["cfg"])
                if 0 < len(leaves) <= 12:
                    m["leaf_reqs"] = []
                    for lf in leaves:
                        m["leaf_reqs"].append(len(out))
                        out.append(streams.P("packet", gen.encode(lf), member_of=True))
        return out
    if pid == "C15":
        return [x for x in streams.midsize_padded(r) if x[1]["kind"] in ("tfb", "pfb")] + parse_fci(r, tier) + parse_typed(r, tier, ["tfb", "pfb"]) + pad_stream(r, "quick", ["tfb", "pfb"])
    if pid == "C18":
        return parse_all(r, tier, big=False) + big_light(r)
    if pid == "C19":
        out = streams.helper_stream(r, tier) + parse_custom(r, tier, 1.0) + build_stream(r, tier, ("custom", "unknown"))
        out += [(q, m) for q, m in build_stream(r, tier, ("compound",)) if "custom" in q or "unknown" in q]
        return out
    if pid == "C20":
        return group_stream(r, tier)
    raise KeyError(pid)


# ------------------------------------------------------------------------------------------------
# projections: what of a transcript the property is about (both sides go through the same function)

def cls(v):
    if v == "ok" or v.startswith("ok:"): return "ok"
    if v.startswith("err:"): return "err"
    if "panic" in v: return "panic"
    return v


def leaf_kind(meta):
    c = meta.get("cfg")
    while c and c["k"] == "pb": c = c["inner"]
    return c["k"] if c else None


HEADER_KEYS = ("version", "type", "count", "subtype", "length", "padding")


def base_key(k):
    """key without its view prefix a./b./rt./pN."""
    parts = k.split(".")
    while parts and (parts[0] in ("a", "b", "rt") or (parts[0][0] == "p" and parts[0][1:].isdigit())):
        parts = parts[1:]
    return ".".join(parts)


def size_n(t):
    s = t.get("size", "")
    return int(s[3:]) if s.startswith("ok:") else None


def project(pid, t, meta):
    out = project_(pid, t, meta)
    if meta.get("op") == "parse" and "shift_same" in t and pid in ("C01", "C08", "C09", "C10", "C11", "C12", "C15", "C18", "C19"):
        out["shift_same"] = t["shift_same"]
    for k in ("again_same", "rt.again_same"):
        if k in t and pid in ("C01", "C02", "C03", "C04", "C05", "C09", "C10", "C11", "C12", "C13", "C15", "C19"):
            out[k] = t[k]
    return out


def project_interleave(pid, t, meta):
    """(interleave A B): sizes and unchecked writes of two builders, sized first, written afterwards"""
    return {k: (v if not v.startswith("err:") else "err") for k, v in t.items() if k.startswith(("a.", "b."))}


def project_(pid, t, meta):
    if meta.get("op") == "interleave":
        return project_interleave(pid, t, meta)
    op = meta.get("op")
    out = {}
    if pid == "C01":
        for k, v in t.items():
            if op == "build" and not k.startswith("rt."): continue
            bk = base_key(k)
            if bk == "res" or bk.endswith(".res"): out[k] = cls(v)
            elif "panic" in v or v == "cap": out[k] = "panic"
            elif bk in ("n", "rbs", "chunks", "after") or bk.endswith(".items"): out[k] = v
        return out
    if pid in ("C02", "C03", "C04", "C05"):
        want = {"C02": ("sr", "rr"), "C03": ("sdes",), "C04": ("bye", "app"), "C05": ("tfb", "pfb")}[pid]
        if op != "build" or leaf_kind(meta) not in want: return out
        out["size"] = cls(t.get("size", ""))
        n = size_n(t)
        for k, v in t.items():
            if k.startswith("rt."): out[k] = v
            elif k == "size_trait_same" or (k.startswith("w") and k.endswith(".trait_same")): out[k] = v
            elif k.startswith("w") and k.endswith(".res"): out[k] = cls(v)
            elif k.startswith("w") and k.endswith(".buf") and n is not None and t.get(k[:-4] + ".res") == f"ok:{n}" and v != "-":
                out[k] = v[:2 * n]
        return out
    if pid == "C06":
        if op != "build": return out
        if "size" in t: out["size"] = t["size"] if not t["size"].startswith("err:") else "err"
        for k, v in t.items():
            if k.endswith(".res") and k.startswith("w"): out[k] = v if not v.startswith("err:") or "OutputTooSmall" in v else "err"
            elif k.endswith((".rewrite_same", ".trait_same")) and k.startswith("w"): out[k] = v
            elif k == "size_trait_same": out[k] = v
        return out
    if pid in ("C07", "C14", "C19", "C20", "C17"):
        if op != "build":
            if pid == "C19" and op in ("parse", "pad", "helper"):
                return dict(t)
            if pid == "C17" and op == "helper":
                return dict(t)
            if pid == "C14" and op == "parse":
                return {k: v for k, v in t.items() if k in ("res", "variant", "version", "type", "count", "length", "padding")}
            return out
        if pid == "C14" and meta["cfg"]["k"] != "compound": return out
        n = size_n(t)
        for k, v in t.items():
            if k.startswith("spec."): continue
            if k.endswith(".buf") and k.startswith("w"):
                if pid == "C17": out[k] = v
                elif n is not None and t.get(k[:-4] + ".res") == f"ok:{n}":
                    out[k] = v[:2 * n] if v != "-" else v
            elif k.startswith("w") and k.endswith(".res"):
                out[k] = cls(v) if pid in ("C07", "C17") else v
            elif k.startswith("w") and k.endswith((".rewrite_same", ".trait_same")):
                out[k] = v
            elif k == "size_trait_same":
                out[k] = v
            elif k == "size":
                out[k] = cls(v) if pid in ("C07", "C17") else v
            elif k.startswith("rt.") and pid in ("C14", "C19"):
                out[k] = v
        return out
    if pid == "C08":
        for k, v in t.items():
            bk = base_key(k)
            if bk == "res": out[k] = cls(v)
            elif bk in HEADER_KEYS or bk == "variant": out[k] = v
        return out
    if pid == "C09":
        for k, v in t.items():
            bk = base_key(k)
            if bk == "res": out[k] = cls(v)
            elif bk.startswith(("typed.", "conv.", "conv_same.", "convo.", "convo_same.", "as.", "aso.", "fci.", "spec.")) or bk == "strs": continue
            else: out[k] = v
        return out
    if pid == "C10":
        if not (op in ("parse", "pad") and meta.get("kind") == "sdes"): return out
        for k, v in t.items():
            bk = base_key(k)
            if bk == "res": out[k] = cls(v)
            elif bk == "chunks" or bk.startswith("c"): out[k] = v
        return out
    if pid == "C11":
        if not (op == "parse" and meta.get("kind") in ("compound", "packet")): return out
        for k, v in t.items():
            bk = base_key(k)
            if k == "res": out[k] = cls(v) if meta["kind"] == "compound" else v
            elif k in ("n", "after", "adapt"): out[k] = v
            elif bk in ("res", "variant", "length", "type", "count", "version", "padding"): out[k] = v
        return out
    if pid == "C12":
        if not (op == "parse" and meta.get("kind") in ("packet", "unknown")): return out
        for k, v in t.items():
            if k in ("res", "variant", "is_unknown", "data") or k.startswith(("typed.", "conv.", "conv_same.", "convo.", "convo_same.", "as.", "aso.", "pfrom.")): out[k] = v
        return out
    if pid == "C13":
        if op != "pad": return out
        return {k: v for k, v in t.items()
                if not k.startswith("spec.") and not base_key(k).startswith(("typed.", "conv.", "conv_same.", "convo.", "convo_same.", "as.", "aso."))}
    if pid == "C15":
        for k, v in t.items():
            bk = base_key(k)
            if bk.startswith("fci.") or bk in ("entries", "entries.adapt", "rpsi"): out[k] = v
            elif bk == "res" and meta.get("kind") in ("nack", "fir", "sli", "rpsi", "pli"): out[k] = cls(v)
            elif bk == "res": out[k] = cls(v)
        return out
    if pid == "C16":
        if op in ("build", "size") and "size" in t: out["size"] = t["size"]
        return out
    if pid == "C18":
        for k, v in t.items():
            if base_key(k) == "res": out[k] = v
        return out
    raise KeyError(pid)
