"""Property oracles evaluated on the IMPLEMENTATION's transcript (DESIGN §3.3 step 5, §8).

Each `oracle_Cnn(ctx, i)` returns a list of failure strings for request i: the clauses of property
Cnn, as written in properties.jsonl, that the real crate's observed behaviour violates on that
request.  They are deliberately written against facts computed here from the request (the input
bytes, the configuration) with the small reference encoders/decoders below or in gen.py -- not
against the Lean model -- so that "model and code disagree" and "the code violates the property"
are reported separately.  An oracle never demands more than the property states.
"""
import re
import struct

import gen
from common import unhex, hexb

KIND_PT = {"app": 204, "bye": 203, "rr": 201, "sr": 200, "sdes": 202, "tfb": 205, "pfb": 206}
KIND_MIN = {"app": 12, "bye": 4, "rr": 8, "sr": 28, "sdes": 4, "tfb": 12, "pfb": 12, "unknown": 4}
PT_KIND = {v: k for k, v in KIND_PT.items()}
KNOWN = ["app", "bye", "rr", "sdes", "sr", "tfb", "pfb"]


class Ctx:
    """everything an oracle may look at"""

    def __init__(self, reqs, metas, impl, model):
        self.reqs, self.metas, self.I, self.M = reqs, metas, impl, model


# ------------------------------------------------------------------------------------------------
# small helpers

def be16(b, o): return struct.unpack(">H", b[o:o + 2])[0]
def be32(b, o): return struct.unpack(">I", b[o:o + 4])[0]
def be64(b, o): return struct.unpack(">Q", b[o:o + 8])[0]


def pfx(t, p):
    """sub-dict of transcript t with key prefix p removed"""
    return {k[len(p):]: v for k, v in t.items() if k.startswith(p)}


def has_panic(v):
    return "panic" in v or v == "cap" or v.endswith("=cap")


def parse_slice(v):
    """'<hex>@<off>' -> (bytes, off|None)"""
    h, _, o = v.rpartition("@")
    return unhex(h), (int(o) if o.isdigit() else None)


def pad_str(p):
    return "none" if not p else str(p)


def kind_name(kind):
    return kind if isinstance(kind, str) else "custom"


def kind_min_pt(kind):
    if isinstance(kind, (tuple, list)):
        return kind[2], kind[1]
    return KIND_MIN.get(kind), KIND_PT.get(kind)


def framed(b, mn, pt):
    """Spec.WellFramed: the C08 acceptance conditions of check_packet"""
    if len(b) < max(mn, 4): return False
    if b[0] >> 6 != 2: return False
    if pt is not None and b[1] != pt: return False
    if 4 * (be16(b, 2) + 1) != len(b): return False
    if b[0] & 0x20 and b[-1] == 0: return False
    return True


def padlen(b):
    return b[-1] if (len(b) >= 4 and b[0] & 0x20) else 0


# ------------------------------------------------------------------------------------------------
# reference FCI decoders (RFC 4585 §6.2.1, §6.3.2, §6.3.3; RFC 5104 §4.3.1)

def ref_nack(d):
    out = []
    for i in range(0, len(d) - 3, 4):
        pid, blp = be16(d, i), be16(d, i + 2)
        out.append(pid)
        for k in range(1, 17):
            if blp >> (k - 1) & 1:
                out.append((pid + k) & 0xffff)
    return out


def ref_fir(d):
    return [(be32(d, i), d[i + 4]) for i in range(0, len(d) - 7, 8)]


def ref_sli(d):
    out = []
    for i in range(0, len(d) - 3, 4):
        w = be32(d, i)
        out.append((w >> 19, (w >> 6) & 0x1fff, w & 0x3f))
    return out


def bits_of(b):
    return "".join(f"{x:08b}" for x in b)


def ref_rpsi(d):
    """(payload type, bit string) of an RPSI FCI the parser may accept; None if malformed"""
    if len(d) < 4: return None
    pb = d[0]
    if pb // 8 + 2 > len(d): return None
    total = 8 * (len(d) - 2)
    return d[1] & 0x7f, bits_of(d[2:])[:max(0, total - pb)]


# ------------------------------------------------------------------------------------------------
# iterator adaptors and string accessors: consistency with what next() / the slice accessors gave

def adapt_of(elems):
    """the `.adapt` rendering (PROTOCOL.md §5 ADAPT) of an iterator whose next()-driven list is elems"""
    j = lambda xs: ",".join(xs) if xs else "-"
    n = len(elems)
    last = elems[-1] if elems else "none"
    ks = range(min(n, 20) + 1)
    return ";".join([str(n), last, j(elems[1:]),
                     elems[2] if n > 2 else "none", j(elems[0::2]), elems[2] if n > 2 else "none",
                     str(max(n - 1, 0)), str(max(n - 1, 0)), j(elems), str(n),
                     # parts 11, 12: next() k times, then count() / last(), k = 0 .. min(n, 20)
                     ",".join(str(n - k) for k in ks),
                     "|".join(last if k < n else "none" for k in ks)])


def elems_of(V, key):
    """element renderings behind `key.adapt` in view dict V (prefix stripped); None if not derivable"""
    base = key[:-len(".adapt")] if key != "adapt" else ""
    if key == "adapt":                                   # compound
        n = V.get("n", "")
        return [V.get(f"p{i}.res", "?") for i in range(int(n))] if n.isdigit() else None
    v = V.get(base)
    if v is None or "panic" in v or v == "cap": return None
    if base == "rbs": return [V.get(f"rb{i}", "?") for i in range(int(v))] if v.isdigit() else None
    if base == "chunks": return [V.get(f"c{i}.ssrc", "?") for i in range(int(v))] if v.isdigit() else None
    if base.endswith(".items"):
        c = base[:-len(".items")]
        return [V.get(f"{c}.i{i}", "?").split(",")[0] for i in range(int(v))] if v.isdigit() else None
    if base.startswith("fci."):
        if not v.startswith("ok"): return None
        v = v[3:] if v.startswith("ok:") else "-"
    return [] if v == "-" else v.split(",")


def adapt_failures(V, tag, only=None):
    out = []
    for k, v in V.items():
        if not (k == "adapt" or k.endswith(".adapt")): continue
        if only is not None and not only(k): continue
        if v in ("cap",): continue
        el = elems_of(V, k)
        if el is None: continue
        want = adapt_of(el)
        if v != want:
            out.append(f"{tag}{k}={v[:90]}: count/last/skip/nth/step_by disagree with next()-driven iteration ({want[:90]})")
    return out


def utf8_val(b):
    try:
        b.decode("utf-8"); return "ok:" + hexb(b)
    except UnicodeDecodeError:
        return "err"


def string_failures(V, tag, b=None):
    """name_str / reason_str / item .str against the bytes the slice accessors returned"""
    out = []
    if "name_str" in V and "name" in V and "panic" not in V["name"]:
        nm = unhex(V["name"]); nm = nm[:nm.index(0)] if 0 in nm else nm
        if V["name_str"] != utf8_val(nm): out.append(f"{tag}get_name_string()={V['name_str']} but name()={V['name']}")
    if "reason_str" in V and "reason" in V and "panic" not in V["reason"]:
        want = "none" if V["reason"] == "none" else utf8_val(parse_slice(V["reason"])[0])
        if V["reason_str"] != want: out.append(f"{tag}get_reason_string()={V['reason_str']} but reason()={V['reason'][:60]}")
    for k, v in V.items():
        if k.endswith(".str") and k[:-4] in V:
            it = V[k[:-4]].split(",", 3)
            if len(it) == 4 and "@" in it[2]:
                want = utf8_val(parse_slice(it[2])[0])
                if v != want: out.append(f"{tag}{k}={v[:60]} but value()={it[2][:60]}")
    return out


# ------------------------------------------------------------------------------------------------
# C01

def oracle_C01(ctx, i):
    I, meta = ctx.I[i], ctx.metas[i]
    out = []
    if I.get("shift_same", "true").endswith("panic"):
        out += shift_failures(I)
    if "panic" in I.get("again_same", "") or "panic" in I.get("rt.again_same", ""):
        out += again_failures(I)
    op = meta.get("op")
    for k, v in I.items():
        if op == "build" and not k.startswith("rt."):
            continue
        if k == "bad-request":
            continue
        if v == "panic" or "panic" in v.split(",") or any("panic" in part for part in v.replace(";", ",").replace(":", ",").split(",")):
            out.append(f"{k}={v}: a parsing entry point / accessor panicked")
        elif v == "cap" or ",cap" in v:
            out.append(f"{k}={v}: iterator exceeded its input-length bound")
    return out


# ------------------------------------------------------------------------------------------------
# round trips C02..C05 (+C19 custom/unknown)

def rb_str(rb):
    return ",".join(str(rb[k]) for k in ("ssrc", "fl", "cl", "esn", "jit", "lsr", "dlsr"))


def leaf(cfg):
    return leaf(cfg["inner"]) if cfg["k"] == "pb" else cfg


def written_failures(I, cfg, out):
    """the bytes a round trip is about are the bytes `write_into` hands to the caller: every
    successful write of the request (whatever the length and the previous contents of the buffer,
    and whatever was written or refused before it) must be the packet that parses back"""
    if gen.violations(cfg) or cfg.get("_size_only") or cfg.get("_big"): return
    want = gen.encode(cfg)
    cw = canon_image(cfg, want)
    for k in sorted(I):
        if not (k.startswith("w") and k.endswith(".res") and I[k].startswith("ok:")): continue
        n = int(I[k][3:])
        got = unhex(I.get(k[:-4] + ".buf", ""))[:n]
        if n != len(want) or canon_image(cfg, got) != cw:
            j = next((x for x in range(min(len(got), len(want))) if got[x] != want[x]), min(len(got), len(want)))
            out.append(f"{k[:-4]}: write_into returned {I[k]} and wrote {got[max(0, j - 4):j + 8].hex()} at byte {j}, the packet is {len(want)} bytes with {want[max(0, j - 4):j + 8].hex()} there")
            return


def rt_common(I, cfg, out, count=None):
    written_failures(I, cfg, out)
    out.extend(path_failures(I))
    if I.get("rt.res") != "ok":
        out.append(f"builder accepted (size={I.get('size')}) but the matching parser says rt.res={I.get('rt.res')}")
        return False
    if I.get("rt.padding") != pad_str(cfg.get("padding", 0)):
        out.append(f"rt.padding={I.get('rt.padding')} expected {pad_str(cfg.get('padding', 0))}")
    if count is not None and I.get("rt.count") != str(count):
        out.append(f"rt.count={I.get('rt.count')} expected {count}")
    return True


def expect(I, key, want, out):
    if I.get(key) != str(want):
        out.append(f"{key}={I.get(key)} expected {want}")


def oracle_C02(ctx, i):
    I, meta = ctx.I[i], ctx.metas[i]
    if meta.get("op") != "build": return []
    again = again_failures(I, ("rt.",))
    cfg = leaf(meta["cfg"])
    if cfg["k"] not in ("sr", "rr") or not I.get("size", "").startswith("ok:"): return []
    out = []
    if not rt_common(I, cfg, out, len(cfg["rbs"])): return out
    expect(I, "rt.ssrc", cfg["ssrc"], out)
    if cfg["k"] == "sr":
        for a, b in (("ntp", "ntp"), ("rtp", "rtp"), ("pc", "pc"), ("oc", "oc")):
            expect(I, "rt." + a, cfg[b], out)
    expect(I, "rt.n_reports", len(cfg["rbs"]), out)
    expect(I, "rt.rbs", len(cfg["rbs"]), out)
    for j, rb in enumerate(cfg["rbs"]):
        expect(I, f"rt.rb{j}", rb_str(rb), out)
    out += adapt_failures(pfx(I, "rt."), "rt.")
    return out + again


def item_fields(v):
    """'<type>,<len>,<value SLICE>,<PRIV>' -> (type, len, value bytes, prefix bytes|None, raw)"""
    t, ln, val, priv = v.split(",", 3)
    vb = parse_slice(val)[0] if "@" in val else None
    pb = None
    if priv != "-":
        pl, _, ps = priv.partition(":")
        pb = parse_slice(ps)[0] if "@" in ps else None
    return t, ln, vb, pb


def oracle_C03(ctx, i):
    I, meta = ctx.I[i], ctx.metas[i]
    if meta.get("op") != "build": return []
    again = again_failures(I, ("rt.",))
    cfg = leaf(meta["cfg"])
    if cfg["k"] != "sdes" or not I.get("size", "").startswith("ok:"): return []
    if any(it["type"] == 0 for ch in cfg["chunks"] for it in ch["items"]): return []
    out = []
    if not rt_common(I, cfg, out): return out
    expect(I, "rt.chunks", len(cfg["chunks"]), out)
    for ci, ch in enumerate(cfg["chunks"]):
        expect(I, f"rt.c{ci}.ssrc", ch["ssrc"], out)
        expect(I, f"rt.c{ci}.items", len(ch["items"]), out)
        for ji, it in enumerate(ch["items"]):
            v = I.get(f"rt.c{ci}.i{ji}")
            if v is None:
                out.append(f"rt.c{ci}.i{ji} missing"); continue
            t, ln, vb, pb = item_fields(v)
            if t != str(it["type"]): out.append(f"rt.c{ci}.i{ji} type {t} expected {it['type']}")
            if vb != it["value"]: out.append(f"rt.c{ci}.i{ji} value {v} expected {it['value'].hex()}")
            if it["type"] == 8:
                want = it.get("prefix") or b""
                if pb != want: out.append(f"rt.c{ci}.i{ji} prefix {v} expected {want.hex()}")
            sv = I.get(f"rt.c{ci}.i{ji}.str")
            if sv is not None and sv != "ok:" + hexb(it["value"]):
                out.append(f"rt.c{ci}.i{ji}.str={sv[:60]} expected the configured text {hexb(it['value'])[:60]}")
    V = pfx(I, "rt.")
    out += adapt_failures(V, "rt.") + string_failures(V, "rt.")
    return out + again


def oracle_C04(ctx, i):
    I, meta = ctx.I[i], ctx.metas[i]
    if meta.get("op") != "build": return []
    again = again_failures(I, ("rt.",))
    cfg = leaf(meta["cfg"])
    if cfg["k"] not in ("bye", "app") or not I.get("size", "").startswith("ok:"): return []
    out = []
    if cfg["k"] == "bye":
        if not rt_common(I, cfg, out, len(cfg["sources"])): return out
        expect(I, "rt.ssrcs", ",".join(map(str, cfg["sources"])) or "-", out)
        r = cfg.get("reason")
        v = I.get("rt.reason", "")
        if not r:
            if v != "none": out.append(f"rt.reason={v} expected none")
        elif "@" not in v or parse_slice(v)[0] != r:
            out.append(f"rt.reason={v} expected {r.hex()}")
    else:
        if not rt_common(I, cfg, out, cfg["subtype"]): return out
        expect(I, "rt.ssrc", cfg["ssrc"], out)
        expect(I, "rt.name", (cfg["name"] + bytes(4 - len(cfg["name"]))).hex(), out)
        v = I.get("rt.data", "")
        if "@" not in v or parse_slice(v)[0] != cfg["data"]:
            out.append(f"rt.data={v[:80]} expected {cfg['data'].hex()[:80]}")
    if cfg["k"] == "bye" and cfg.get("reason") and I.get("rt.reason_str") not in (None, "ok:" + hexb(cfg["reason"])):
        out.append(f"rt.reason_str={I.get('rt.reason_str')[:60]} expected the configured text {hexb(cfg['reason'])[:60]}")
    V = pfx(I, "rt.")
    out += adapt_failures(V, "rt.") + string_failures(V, "rt.")
    return out + again


def fci_expected(f):
    """rendering of parse_fci::<F>() after `ok:` for what was put in; None = not checkable"""
    k = f["k"]
    if k == "nack":
        s = sorted(set(f["seqs"]))
        return "ok:" + (",".join(map(str, s)) or "-")
    if k == "fir":
        m = gen.fir_map(f["entries"])
        return "ok:" + (",".join(sorted(f"{s}:{q}" for s, q in m.items())) or "-")
    if k == "sli":
        if any(a > 0x1fff or b > 0x1fff or c > 0x3f for a, b, c in f["entries"]): return None
        return "ok:" + (",".join(f"{a}:{b}:{c}" for a, b, c in f["entries"]) or "-")
    if k == "pli":
        return "ok"
    return None


def canon_fir(v):
    if v.startswith("ok:") and v != "ok:-":
        return "ok:" + ",".join(sorted(v[3:].split(",")))
    return v


def oracle_C05(ctx, i):
    I, meta = ctx.I[i], ctx.metas[i]
    if meta.get("op") != "build": return []
    again = again_failures(I, ("rt.",))
    cfg = leaf(meta["cfg"])
    if cfg["k"] not in ("tfb", "pfb") or not I.get("size", "").startswith("ok:"): return []
    f = cfg["fci"]
    out = []
    if not rt_common(I, cfg, out, gen.FCI_FMT[f["k"]]): return out
    expect(I, "rt.sender_ssrc", cfg["sender"], out)
    expect(I, "rt.media_ssrc", cfg["media"], out)
    got = I.get(f"rt.fci.{f['k']}", "")
    if f["k"] == "rpsi":
        if not got.startswith("ok:"):
            out.append(f"rt.fci.rpsi={got}: RPSI put in does not decode")
        else:
            pt, sl, kk = got[3:].split(";")
            sb = parse_slice(sl)[0]
            have = bits_of(sb)[:8 * len(sb) - int(kk)] if kk.isdigit() else None
            want = bits_of(f["data"])[:8 * len(f["data"]) - f["overrun"]]
            if pt != str(f["pt"]): out.append(f"rt.fci.rpsi payload type {pt} expected {f['pt']}")
            if have != want: out.append(f"rt.fci.rpsi bit string {have} expected {want}")
    else:
        want = fci_expected(f)
        if want is not None:
            g = canon_fir(got) if f["k"] == "fir" else got
            if g != want:
                out.append(f"rt.fci.{f['k']}={got[:120]} expected {want[:120]}")
    out += adapt_failures(pfx(I, "rt."), "rt.")
    return out + again


# ------------------------------------------------------------------------------------------------
# C06 / C07 / C16 / C17: the writer contract

WHOLE = ("sr", "rr", "bye", "app", "sdes", "unknown", "tfb", "pfb", "pb", "compound", "custom")


def fill_bytes(n, fill):
    if fill == "pat":
        return bytes((j * 31 + 7) & 0xff for j in range(n))
    return bytes([int(fill, 16)]) * n


def size_of(I):
    s = I.get("size", "")
    return int(s[3:]) if s.startswith("ok:") else None


def path_failures(I):
    """the same builder through the method a caller writes on the concrete type (`b.write_into(..)`,
    which an inherent fast path may shadow) and through the trait (`RtcpPacketWriterExt::write_into`,
    what generic code and `dyn` callers reach): one configuration, one result"""
    out = []
    for k, v in sorted(I.items()):
        if (k.endswith(".trait_same") or k == "size_trait_same") and v != "true":
            out.append(f"calling through the trait and calling the method on the concrete builder type differ: {k}={v}")
    return out


def rewrite_failures(I):
    """writing the same builder again into the same buffer, after the caller changed bytes 8..n of
    it, must give the same bytes again (C06: the size written is the size announced, on every call;
    C17: what is written does not depend on what the buffer held)"""
    return [f"second write of the same builder into the same buffer (bytes 8.. overwritten in between) differs: {k}={v}"
            for k, v in sorted(I.items()) if k.endswith(".rewrite_same") and v != "true"]


def oracle_interleave(ctx, i):
    """(interleave A B): both builders sized first, then both written with write_into_unchecked into
    buffers of exactly their size: each must come out as if it had been built alone"""
    I, meta = ctx.I[i], ctx.metas[i]
    out = []
    for side in ("a", "b"):
        cfg = meta["cfgs"][side]
        v = gen.violations(cfg)
        s = I.get(side + ".size", "")
        if v:
            if not s.startswith("err:"): out.append(f"{side}: configuration violates {v[0]} but size calculation said {s}")
            elif s[4:] not in v: out.append(f"{side}: error {s[4:]} names none of the violated rules {v[:4]}")
            continue
        want = gen.encode(cfg)
        if s != f"ok:{len(want)}":
            out.append(f"{side}: size {s}, the configuration encodes to {len(want)} bytes"); continue
        if side + ".res" not in I: continue        # the other builder was refused: nothing written
        if I[side + ".res"] != f"ok:{len(want)}":
            out.append(f"{side}: write_into_unchecked returned {I[side + '.res']}, size was {len(want)}"); continue
        got = unhex(I.get(side + ".buf", ""))
        if canon_image(cfg, got) != canon_image(cfg, want):
            j = next((x for x in range(min(len(got), len(want))) if got[x] != want[x]), min(len(got), len(want)))
            out.append(f"{side}: written after sizing the other builder: differs from the packet built alone at byte {j}: {got[max(0,j-4):j+8].hex()} vs {want[max(0,j-4):j+8].hex()}")
    return out


def oracle_C06(ctx, i):
    I, meta = ctx.I[i], ctx.metas[i]
    if meta.get("op") != "build": return []
    out = []
    s = I.get("size", "")
    if s == "panic":
        return ["calculate_size panicked"]
    n = size_of(I)
    if "size" not in I and meta["cfg"]["k"] in ("chunk", "item"):
        # stand-alone SDES chunk / item builders: the protocol has no size line for them; the size a
        # valid one announces is the length of its RFC image, an invalid one fails with its rule
        v = gen.violations(meta["cfg"])
        if not v:
            n = len(gen.encode(meta["cfg"])); s = f"ok:{n}"
        else:
            for j, (L, fill) in enumerate(meta.get("bufs", [])):
                r = I.get(f"w{j}.res")
                if r is not None and (r == "panic" or r.startswith("ok:")):
                    out.append(f"invalid {meta['cfg']['k']} ({v[0]}) but write_into returned {r}")
            return out
    def third_party_odd(c):
        if c["k"] == "pb": return third_party_odd(c["inner"])
        if c["k"] == "compound": return any(third_party_odd(x) for x in c["members"])
        return c["k"] == "custom" and max(4 + len(c["body"]), c["min"]) % 4 != 0
    if n is not None and meta["cfg"]["k"] in WHOLE and n % 4 and not third_party_odd(meta["cfg"]):
        out.append(f"size {n} of a whole packet is not a multiple of 4")
    for j, (L, fill) in enumerate(meta.get("bufs", [])):
        r = I.get(f"w{j}.res")
        if r is None: continue
        if r == "panic":
            out.append(f"write_into panicked with a {L}-byte buffer (size={s})")
        elif n is not None:
            want = f"ok:{n}" if L >= n else f"err:OutputTooSmall({n})"
            if r != want: out.append(f"size={s}, buffer {L}: write_into returned {r}, expected {want}")
        elif s.startswith("err:") and r != s:
            out.append(f"size={s} but write_into returned {r}")
    return out + rewrite_failures(I) + path_failures(I)


def canon_image(cfg, b):
    """FIR entries may appear in any order: sort them in both images"""
    if "fir" not in str(cfg): return b
    import fidelity
    if cfg["k"] == "fir":
        return b"".join(sorted(b[j:j + 8] for j in range(0, len(b), 8)))
    return fidelity.canon_fir_bytes(b)


def oracle_C07(ctx, i):
    I, meta = ctx.I[i], ctx.metas[i]
    if meta.get("op") != "build": return []
    n = size_of(I)
    if n is None: return []
    cfg = meta["cfg"]
    if gen.violations(cfg): return []      # acceptance itself is C16's business
    want = gen.encode(cfg)
    out = []
    if len(want) != n:
        out.append(f"size {n} but the RFC image has {len(want)} bytes")
    for j, (L, fill) in enumerate(meta.get("bufs", [])):
        if L >= n and I.get(f"w{j}.res") not in (None, f"ok:{n}"):
            out.append(f"accepted configuration (size {n}) was not written into a {L}-byte buffer: {I.get(f'w{j}.res')}")
            break
        if I.get(f"w{j}.res") != f"ok:{n}": continue
        got = unhex(I[f"w{j}.buf"])[:n]
        if canon_image(cfg, got) != canon_image(cfg, want):
            d = next((x for x in range(min(len(got), len(want))) if got[x] != want[x]), min(len(got), len(want)))
            out.append(f"bytes written differ from the RFC image at offset {d}: wrote {got[max(0,d-4):d+8].hex()} image {want[max(0,d-4):d+8].hex()}")
            break
    return out + path_failures(I)


def oracle_C16(ctx, i):
    I, meta = ctx.I[i], ctx.metas[i]
    if meta.get("op") not in ("build", "size"): return []
    s = I.get("size")
    if s is None:
        # stand-alone chunk / item builders have no calculate_size of their own in the protocol:
        # the outcome of write_into tells (an error other than OutputTooSmall is the size error)
        rs = [I[k] for k in sorted(I) if k.startswith("w") and k.endswith(".res")]
        if not rs: return []
        errs = [x for x in rs if x.startswith("err:") and not x.startswith("err:OutputTooSmall")]
        s = errs[0] if errs else "ok:0"
    v = gen.violations(meta["cfg"])
    if s.startswith("ok:"):
        return [f"configuration violates {v[0]} but size calculation accepted it ({s})"] if v else []
    if s.startswith("err:"):
        if not v: return [f"representable configuration refused with {s}"]
        if s[4:] not in v: return [f"error {s[4:]} names none of the violated rules {v[:4]}"]
        return []
    return [f"size={s}"]


def oracle_C17(ctx, i):
    I, meta = ctx.I[i], ctx.metas[i]
    if meta.get("op") == "helper": return oracle_helper(I, meta)
    if meta.get("op") != "build": return []
    n = size_of(I)
    out = []
    first = None
    cfg = meta["cfg"]
    for j, (L, fill) in enumerate(meta.get("bufs", [])):
        r = I.get(f"w{j}.res")
        if r is None or r == "panic": continue
        after = unhex(I[f"w{j}.buf"])
        before = fill_bytes(L, fill)
        if r.startswith("ok:"):
            m = int(r[3:])
            if after[m:] != before[m:]:
                d = next(x for x in range(m, L) if after[x] != before[x])
                out.append(f"byte {d} beyond the {m} written was changed ({before[d]:02x} -> {after[d]:02x})")
            head = canon_image(cfg, after[:m])
            if first is None: first = (head, fill)
            elif head != first[0]:
                d = next((x for x in range(min(len(head), len(first[0]))) if head[x] != first[0][x]), 0)
                out.append(f"bytes written depend on the previous buffer contents (prefill {first[1]} vs {fill}) at offset {d}")
        else:
            if after != before:
                out.append(f"failed write ({r}) modified the buffer")
    return out + rewrite_failures(I) + path_failures(I)


# ------------------------------------------------------------------------------------------------
# C08 framing / C18 errors / C09 fields: facts computed from the input bytes

def view_prefixes(meta):
    """(prefix, kind, bytes) of every typed view dumped by a request"""
    op = meta.get("op")
    if op == "parse":
        return [("", meta["kind"], meta["bytes"])]
    if op == "pad":
        b = meta["bytes"]
        return [("a.", meta["kind"], b), ("b.", meta["kind"], add_padding(b, meta["n"]))]
    return []


def add_padding(p, n):
    if len(p) < 4 or n == 0: return p
    q = bytearray(p)
    q[0] |= 0x20
    q[2:4] = struct.pack(">H", (be16(p, 2) + n // 4) & 0xffff)
    return bytes(q) + bytes(n - 1) + bytes([n])


def c08_view(V, kind, b, out, tag):
    """V: view dict (prefix stripped) of an ACCEPTED typed / unknown / packet / custom parse"""
    k = kind_name(kind)
    if k in ("compound", "rb", "nack", "fir", "sli", "rpsi", "pli"): return
    if k == "packet":
        if len(b) < 4:
            out.append(f"{tag}accepted a {len(b)}-byte string as a packet"); return
        var = V.get("variant")
        k2 = PT_KIND.get(b[1], "unknown")
        mn, pt = KIND_MIN[k2], KIND_PT.get(k2)
    else:
        mn, pt = kind_min_pt(kind)
        k2 = k
    L = len(b)
    if L < max(mn, 4): out.append(f"{tag}accepted {L} bytes, below the minimum {mn}"); return
    if b[0] >> 6 != 2: out.append(f"{tag}accepted version {b[0] >> 6}")
    if pt is not None and b[1] != pt: out.append(f"{tag}accepted packet type {b[1]} as {pt}")
    if 4 * (be16(b, 2) + 1) != L: out.append(f"{tag}accepted although 4*(length field+1)={4 * (be16(b, 2) + 1)} != {L}")
    if k2 != "unknown" and b[0] & 0x20 and b[-1] == 0: out.append(f"{tag}accepted a set padding bit with a zero padding count")
    cnt = b[0] & 0x1f
    if k2 in ("sr", "rr") and mn + 24 * cnt > L: out.append(f"{tag}accepted although {cnt} report blocks do not fit in {L} bytes")
    if k2 == "bye" and 4 + 4 * cnt > L: out.append(f"{tag}accepted although {cnt} sources do not fit in {L} bytes")
    # header accessors
    for key, want in (("version", 2), ("type", b[1]), ("count", cnt), ("subtype", cnt), ("length", L)):
        if key in V and V[key] != str(want): out.append(f"{tag}{key}()={V[key]} but the header says {want}")
    if "padding" in V:
        want = pad_str(b[-1]) if b[0] & 0x20 else "none"
        if V["padding"] != want: out.append(f"{tag}padding()={V['padding']} but the header says {want}")


def oracle_C08(ctx, i):
    I, meta = ctx.I[i], ctx.metas[i]
    out = []
    for p, kind, b in view_prefixes(meta):
        if I.get(p + "res") == "ok":
            c08_view(pfx(I, p), kind, b, out, p)
    return out


def c18_err(err, kind, b, out, tag, field_truth_only=False):
    """err: rendering after 'err:'.  field_truth_only: the error does not come from a parser run on
    the bytes (a conversion between two typed variants answers with the mismatch at once), so only
    what the error says is judged, not which error a parser would have to give first"""
    k = kind_name(kind)
    name, _, args = err.partition("(")
    args = args.rstrip(")").split(",") if args else []
    L = len(b)
    mn, pt = (None, None)
    if k in KIND_MIN or k == "custom": mn, pt = kind_min_pt(kind)
    if k == "packet":
        # the generic parser is the typed parser of the input's own type octet (C12), so the
        # same statement applies with that type's minimum; unknown types are framed only
        PT_KIND = {v: kk for kk, v in KIND_PT.items()}
        pt = b[1] if L >= 2 else None
        mn = KIND_MIN.get(PT_KIND.get(pt), 4) if L >= 4 else 4
    if k == "rb": mn = 24
    if name == "UnsupportedVersion":
        v = int(args[0])
        if L < 1 or v != b[0] >> 6 or v == 2: out.append(f"{tag}{err}: the input's version is {b[0] >> 6 if L else '?'}")
    elif name == "PacketTypeMismatch":
        a, r = int(args[0]), int(args[1])
        if L < 2 or a != b[1] or a == r or (pt is not None and r != pt):
            out.append(f"{tag}{err}: input type {b[1] if L > 1 else '?'}, parser type {pt}")
    elif name == "Truncated":
        e, a = int(args[0]), int(args[1])
        if not e > a: out.append(f"{tag}{err}: expected is not larger than actual")
    elif name == "TooLarge":
        e, a = int(args[0]), int(args[1])
        if not e < a: out.append(f"{tag}{err}: expected is not smaller than actual")
    if field_truth_only: return
    # short input
    if mn is not None and k not in ("compound",) and L < mn:
        if err != f"Truncated({mn},{L})": out.append(f"{tag}{L} bytes < minimum {mn} reported as {err}")
    elif mn is not None and k in KIND_PT or k == "custom" or k == "packet":
        if L >= 4 and b[0] >> 6 == 2 and b[1] == pt:
            H = 4 * (be16(b, 2) + 1)
            if H != L:
                want = f"Truncated({H},{L})" if L < H else f"TooLarge({H},{L})"
                if err != want: out.append(f"{tag}length field says {H}, input has {L}: reported {err}, expected {want}")
    elif k == "rb" and L != 24:
        want = f"Truncated(24,{L})" if L < 24 else f"TooLarge(24,{L})"
        if err != want: out.append(f"{tag}report block of {L} bytes reported as {err}")


def oracle_C18(ctx, i):
    I, meta = ctx.I[i], ctx.metas[i]
    out = []
    for p, kind, b in view_prefixes(meta):
        r = I.get(p + "res", "")
        if r.startswith("err:"):
            c18_err(r[4:], kind, b, out, p)
        if kind_name(kind) in ("packet", "unknown"):
            # every conversion out of the generic / unknown view is a typed parser's verdict on the same bytes
            for k, v in I.items():
                m = re.match(r"^%s(?:typed|conv|convo|as|aso|pfrom\.as|pfrom\.aso)\.([a-z]+)$" % re.escape(p), k)
                if m and m.group(1) in KIND_MIN and isinstance(v, str) and v.startswith("err:"):
                    from_typed = kind_name(kind) == "packet" and I.get(p + "variant", "unknown") != "unknown" and "typed." not in k
                    c18_err(v[4:], m.group(1), b, out, k + "=", field_truth_only=from_typed)
        if kind == "compound" and r == "ok":
            # errors yielded by the iterator are the generic parser's errors about that tile
            ts = ref_tiling(b) or []
            for j, (o, n) in enumerate(ts):
                e = I.get(f"{p}p{j}.res", "")
                if e.startswith("err:"): c18_err(e[4:], "packet", b[o:o + n], out, f"{p}p{j}.")
    return out


def chk_slice(v, b, off, data, out, name):
    """accessor rendering v must be data at offset off inside b"""
    if "@" not in v:
        out.append(f"{name}={v}"); return
    got, o = parse_slice(v)
    if o is None: out.append(f"{name} is not a sub-slice of the input ({v[:60]})")
    elif got != data or o != off:
        out.append(f"{name}={v[:60]} but the RFC places {data.hex()[:40]}@{off} there")
    elif b[o:o + len(got)] != got:
        out.append(f"{name} bytes are not the input's bytes at {o}")


def c09_view(V, kind, b, out, tag, base=0):
    k = kind_name(kind)
    L = len(b)
    P = padlen(b)
    def num(key, want):
        if key in V and V[key] != str(want): out.append(f"{tag}{key}={V[key]} but the wire says {want}")
    if k in ("sr", "rr"):
        num("ssrc", be32(b, 4))
        o = 8
        if k == "sr":
            num("ntp", be64(b, 8)); num("rtp", be32(b, 16)); num("pc", be32(b, 20)); num("oc", be32(b, 24)); o = 28
        cnt = b[0] & 31
        num("n_reports", cnt); num("rbs", cnt)
        for j in range(cnt):
            q = o + 24 * j
            num(f"rb{j}", ",".join(map(str, (be32(b, q), b[q + 4], be32(b, q + 4) & 0xffffff, be32(b, q + 8), be32(b, q + 12), be32(b, q + 16), be32(b, q + 20)))))
    elif k == "rb":
        num("rb", ",".join(map(str, (be32(b, 0), b[4], be32(b, 4) & 0xffffff, be32(b, 8), be32(b, 12), be32(b, 16), be32(b, 20)))))
    elif k == "app":
        num("ssrc", be32(b, 4)); num("name", b[8:12].hex())
        if "data" in V: chk_slice(V["data"], b, base + 12, b[12:L - P], out, tag + "data")
    elif k == "bye":
        cnt = b[0] & 31
        num("ssrcs", ",".join(str(be32(b, 4 + 4 * j)) for j in range(cnt)) or "-")
        off = 4 + 4 * cnt
        if "reason" in V:
            if L <= off + 1 + P:
                # no room for a reason
                if V["reason"] != "none": out.append(f"{tag}reason={V['reason'][:40]} but no reason is present")
            elif V["reason"] != "none":
                rl = b[off]
                chk_slice(V["reason"], b, base + off + 1, b[off + 1:off + 1 + rl], out, tag + "reason")
    elif k in ("tfb", "pfb"):
        num("sender_ssrc", be32(b, 4)); num("media_ssrc", be32(b, 8))
    elif k == "unknown":
        if "data" in V: chk_slice(V["data"], b, base, b, out, tag + "data")


def again_failures(I, prefixes=("", "rt.")):
    out = []
    for p in prefixes:
        v = I.get(p + "again_same")
        if v is not None and v != "true":
            parts = v.split(":", 2)
            which = parts[1] if len(parts) > 1 else "?"
            if which == "D":
                out.append(f"{p}a clone() of the parsed view answers `{parts[2] if len(parts) > 2 else '?'}` differently from the view it was made from")
                continue
            how = "a second call on the same parsed value" if which == "B" else "calling the accessors in another order on a fresh parse"
            out.append(f"{p}accessor results depend on call history: {how} changes `{parts[2] if len(parts) > 2 else '?'}`")
    return out


def shift_failures(I):
    v = I.get("shift_same")
    if v is not None and v != "true":
        return [f"the result depends on the address of the input slice: at an offset of {v.split(':')[1]} bytes from 8-byte alignment `{v.split(':', 2)[2]}` differs"]
    return []


def oracle_C09(ctx, i):
    I, meta = ctx.I[i], ctx.metas[i]
    out = shift_failures(I) + again_failures(I)
    for p, kind, b in view_prefixes(meta):
        r = I.get(p + "res")
        if r == "ok":
            V = pfx(I, p)
            k = kind_name(kind)
            if k == "packet":
                k = V.get("variant", "unknown")
            if k in ("sr", "rr", "rb", "app", "bye", "tfb", "pfb", "unknown"):
                c09_view(V, k, b, out, p)
                out += string_failures(V, p) + adapt_failures(V, p, only=lambda kk: kk in ("rbs.adapt", "ssrcs.adapt"))
        wf = meta.get("wf")
        if p == "" and wf is not None and r != "ok" and kind_name(kind) in ("sr", "rr", "rb", "app", "bye", "tfb", "pfb", "unknown", "packet"):
            # a raw packet from the unknown builder carrying a known type number is not a
            # well-formed packet of that type
            raw_known = wf.get("k") == "unknown" and wf.get("type") in PT_KIND and kind_name(kind) == "packet"
            if not raw_known and wf.get("k") != "sdes":
                out.append(f"well-formed packet from the reference encoder rejected: {r}")
    return out


# ------------------------------------------------------------------------------------------------
# C10: three-valued reference tokeniser for the chunk region of an SDES packet

def ref_tokenise(body, nchunks_hint=None):
    """-> ('accept'|'ambiguous', chunks) | ('reject', reason) | ('ambiguous', None)
    chunks: list of (ssrc, [(type, value, prefix|None)], encoded_len)
    strict RFC 3550: each chunk = SSRC, items (type!=0, len, value), a zero terminator, zero fill to
    the next 32-bit boundary.  'reject' only for the three classes the property names."""
    chunks = []
    o = 0
    ambiguous = False
    n = len(body)
    while o < n:
        if n - o < 4: return ("ambiguous", None)
        start = o
        ssrc = be32(body, o); o += 4
        items = []
        terminated = False
        while o < n:
            t = body[o]
            if t == 0:
                terminated = True
                break
            if o + 1 >= n: return ("ambiguous", None)       # item header cut by the end
            ln = body[o + 1]
            if o + 2 + ln > n: return ("reject", "item overruns the packet")
            val = body[o + 2:o + 2 + ln]
            if t == 8:
                if ln < 1: return ("ambiguous", None)
                pl = val[0]
                if 1 + pl > ln: return ("reject", "PRIV prefix overruns its item")
                items.append((8, val[1 + pl:], val[1:1 + pl]))
            else:
                items.append((t, val, None))
            o += 2 + ln
        if not terminated:
            # ran into the end without a terminator: RFC requires one; leave to the parser
            if o == n and (o - start) % 4 == 0:
                chunks.append((ssrc, items, o - start)); ambiguous = True; break
            return ("ambiguous", None)
        end = start + (o - start + 1 + 3) // 4 * 4
        if end > n: return ("ambiguous", None)
        if any(body[o:end]): return ("reject", "non-zero bytes in the chunk's fill")
        chunks.append((ssrc, items, end - start))
        o = end
    return ("ambiguous" if ambiguous else "accept", chunks)


def sdes_tokens_of_view(V):
    """chunks as [(ssrc, [(type, value, prefix|None)], length())] from a view dict; None on garbage"""
    try:
        out = []
        for ci in range(int(V["chunks"])):
            items = []
            for ji in range(int(V[f"c{ci}.items"])):
                t, ln, vb, pb = item_fields(V[f"c{ci}.i{ji}"])
                items.append((int(t), vb, pb if int(t) == 8 else None))
            out.append((int(V[f"c{ci}.ssrc"]), items, int(V[f"c{ci}.length"])))
        return out
    except (KeyError, ValueError):
        return None


def oracle_C10(ctx, i):
    I, meta = ctx.I[i], ctx.metas[i]
    out = again_failures(I)
    for p, kind, b in view_prefixes(meta):
        if kind != "sdes": continue
        r = I.get(p + "res", "")
        if not framed(b, 4, 202) or 4 + padlen(b) > len(b): continue
        body = b[4:len(b) - padlen(b)]
        verdict, toks = ref_tokenise(body)
        if r == "ok":
            out += adapt_failures(pfx(I, p), p) + string_failures(pfx(I, p), p)
            got = sdes_tokens_of_view(pfx(I, p))
            if verdict == "reject":
                out.append(f"{p}accepted although {toks}")
            elif toks is not None:
                if got is None or [(s, it) for s, it, _ in got] != [(s, it) for s, it, _ in toks]:
                    out.append(f"{p}chunks/items yielded are not the tokenisation of the bytes: got {got} expected {toks}"[:400])
                elif verdict == "accept" and [l for _, _, l in got] != [l for _, _, l in toks]:
                    out.append(f"{p}chunk length() {[l for _, _, l in got]} expected {[l for _, _, l in toks]}")
        elif r.startswith("err:"):
            if verdict == "accept" and (b[0] & 31) == len(toks):
                out.append(f"{p}well-formed SDES packet rejected with {r}")
    return out


# ------------------------------------------------------------------------------------------------
# C11: compound

def ref_tiling(b):
    if not b: return None
    o, ts = 0, []
    while o < len(b):
        if len(b) - o < 4: return None
        L = 4 * (be16(b, o + 2) + 1)
        if o + L > len(b): return None
        ts.append((o, L)); o += L
    return ts


def oracle_C11(ctx, i):
    I, meta = ctx.I[i], ctx.metas[i]
    if meta.get("op") != "parse" or meta["kind"] != "compound": return []
    b = meta["bytes"]
    ts = ref_tiling(b)
    r = I.get("res", "")
    out = again_failures(I)
    for k, v in I.items():
        if isinstance(v, str) and "panic" in v and k in ("res", "adapt", "n", "after"):
            out.append(f"{k}={v[:60]}: Compound::parse / iteration panicked on a {len(b)}-byte string whose length chain {'tiles' if ts else 'does not tile'} it")
            return out
    if (r == "ok") != (ts is not None):
        out.append(f"Compound::parse says {r} but the length chain {'tiles' if ts else 'does not tile'} the {len(b)}-byte string")
        return out
    if r != "ok": return out
    n = I.get("n", "")
    if not n.isdigit():
        return [f"iteration: n={n}"]
    n = int(n)
    if n > len(ts): out.append(f"iterator yielded {n} items for {len(ts)} tiles")
    if I.get("after") != "none,none,none": out.append(f"next() after the end returned {I.get('after')}")
    out += adapt_failures({k: v for k, v in I.items() if k in ("adapt", "n") or k.endswith(".res")}, "")
    comp = meta.get("tile_reqs")
    stopped = False
    for j in range(min(n, len(ts))):
        rj = I.get(f"p{j}.res", "")
        if comp:
            T = ctx.I[comp[j]]
            if T.get("res") != rj:
                out.append(f"item {j} is {rj} but Packet::parse on tile {j} alone says {T.get('res')}")
            elif rj == "ok":
                for key in ("variant", "version", "type", "count", "length", "padding"):
                    if T.get(key) != I.get(f"p{j}.{key}"):
                        out.append(f"item {j}: {key}={I.get(f'p{j}.{key}')} but the tile parsed alone has {T.get(key)}")
        if rj.startswith("err:"):
            if j != n - 1: out.append(f"iteration continued after the failing tile {j}")
            stopped = True
    if not stopped and n < len(ts):
        out.append(f"iterator stopped after {n} of {len(ts)} tiles without an error")
    return out


# ------------------------------------------------------------------------------------------------
# C12: dispatch

def oracle_C12(ctx, i):
    I, meta = ctx.I[i], ctx.metas[i]
    out = again_failures(I) + shift_failures(I) if meta.get("op") == "parse" else []
    if meta.get("op") == "parse" and meta.get("kind") == "unknown" and I.get("res") == "ok" and i > 0:
        # the same bytes went through the generic parser in the request before: an unknown packet's
        # conversions must say what the typed parsers said there
        pm, T = ctx.metas[i - 1], ctx.I[i - 1]
        if pm.get("op") == "parse" and pm.get("kind") == "packet" and pm.get("bytes") == meta["bytes"]:
            for k in KNOWN:
                for cv in ("as", "aso"):
                    if f"{cv}.{k}" in I and f"typed.{k}" in T and I[f"{cv}.{k}"] != T[f"typed.{k}"]:
                        out.append(f"Unknown {cv}<{k}>={I[f'{cv}.{k}']} but {k}::parse={T[f'typed.{k}']} on the same bytes")
    if meta.get("op") == "parse":
        for k in KNOWN:
            for cv in ("as", "aso"):
                if f"pfrom.{cv}.{k}" in I and I[f"pfrom.{cv}.{k}"] != I.get(f"{cv}.{k}"):
                    out.append(f"Packet::from(unknown) then {cv}<{k}> = {I[f'pfrom.{cv}.{k}']} but Unknown {cv}<{k}> = {I.get(f'{cv}.{k}')}")
        if "pfrom.variant" in I and I["pfrom.variant"] != I.get("variant"):
            out.append(f"Packet::from(view) is a {I['pfrom.variant']} packet, the view came out of a {I.get('variant')} packet")
    for p, kind, b in view_prefixes(meta):
        if kind != "packet" or len(b) < 4: continue
        V = pfx(I, p)
        r = V.get("res", "")
        want_var = PT_KIND.get(b[1], "unknown")
        if r == "ok":
            if V.get("variant") != want_var:
                out.append(f"{p}type byte {b[1]} dispatched to {V.get('variant')}, expected {want_var}")
            if V.get("is_unknown") not in (None, "true" if want_var == "unknown" else "false"):
                out.append(f"{p}is_unknown()={V.get('is_unknown')} for a {want_var} packet")
            if want_var == "unknown":
                if "data" in V:
                    got, o = parse_slice(V["data"])
                    if got != b or o != 0: out.append(f"{p}unknown packet does not expose the input unchanged")
                for k in KNOWN:
                    for cv, what in (("conv", "try_as"), ("convo", "TryFrom<Packet>")):
                        if f"{cv}.{k}" not in V: continue
                        if V.get(f"{cv}.{k}") != V.get(f"typed.{k}"):
                            out.append(f"{p}unknown packet {what}<{k}>={V.get(f'{cv}.{k}')} but {k}::parse={V.get(f'typed.{k}')}")
                        elif V.get(f"{cv}_same.{k}") not in ("true", None):
                            out.append(f"{p}unknown packet {what}<{k}> differs from {k}::parse on the same bytes")
                    for cv in ("as", "aso"):
                        if f"{cv}.{k}" in V and V[f"{cv}.{k}"] != V.get(f"typed.{k}"):
                            out.append(f"{p}Unknown {cv}<{k}>={V[f'{cv}.{k}']} but {k}::parse={V.get(f'typed.{k}')}")
            else:
                if V.get(f"typed.{want_var}") != "ok":
                    out.append(f"{p}generic parser accepted but {want_var}::parse says {V.get(f'typed.{want_var}')}")
                for k in KNOWN:
                    for cv, what in (("conv", "try_as"), ("convo", "TryFrom<Packet>")):
                        c = V.get(f"{cv}.{k}")
                        if c is None: continue
                        if k == want_var:
                            if c != "ok" or V.get(f"{cv}_same.{k}") != "true":
                                out.append(f"{p}{what}<{k}> on the matching variant: {c}, same={V.get(f'{cv}_same.{k}')}")
                        else:
                            want = f"err:PacketTypeMismatch({b[1]},{KIND_PT[k]})"
                            if c != want: out.append(f"{p}{what}<{k}> on a {want_var} packet: {c}, expected {want}")
        elif r.startswith("err:"):
            t = V.get(f"typed.{want_var}")
            if t is not None and t != r:
                out.append(f"{p}generic parser says {r} but {want_var}::parse says {t}")
        if want_var == "unknown" and r == "ok" and V.get("typed.unknown") not in (None, "ok"):
            out.append(f"{p}generic parser accepted but Unknown::parse says {V.get('typed.unknown')}")
    return out


# ------------------------------------------------------------------------------------------------
# C13: padding transparency

CONTENT_SKIP = ("res", "version", "type", "length", "padding", "strs", "is_unknown")


def oracle_C13(ctx, i):
    I, meta = ctx.I[i], ctx.metas[i]
    if meta.get("op") == "parse":
        # padded packets parsed directly (corpus witnesses, and sequences of padded packets that share
        # address, length, header word and SSRC but split payload and padding differently): what the
        # content accessors return ends where the padding begins, whatever was parsed before
        out = again_failures(I) + shift_failures(I)
        if I.get("res") == "ok":
            k = kind_name(meta["kind"])
            if k == "packet": k = I.get("variant", "unknown")
            if k in ("sr", "rr", "app", "bye", "tfb", "pfb"): c09_view(I, k, meta["bytes"], out, "")
        return out
    if meta.get("op") != "pad": return []
    b, n = meta["bytes"], meta["n"]
    if I.get("a.res") != "ok" or len(b) < 4 or b[0] & 0x20 or n % 4 or not 4 <= n <= 252: return []
    if len(b) + n > 262144: return []
    out = []
    if I.get("b.res") != "ok":
        return [f"padded by {n}: parser says {I.get('b.res')}"]
    if I.get("b.padding") not in (str(n), None):
        out.append(f"padding()={I.get('b.padding')} expected {n}")
    A, Bv = pfx(I, "a."), pfx(I, "b.")
    if meta["kind"] == "unknown" or A.get("variant") == "unknown":
        return out       # an unknown packet has no content accessor: data() is the whole packet
    for k, v in A.items():
        if k in CONTENT_SKIP or k.startswith(("typed.", "conv.", "conv_same.", "convo.", "convo_same.", "as.", "aso.")): continue
        if Bv.get(k) != v:
            out.append(f"{k}: {v[:60]} unpadded, {str(Bv.get(k))[:60]} with {n} bytes of padding")
    for k in Bv:
        if k not in A and not k.startswith(("typed.", "conv.", "conv_same.", "convo.", "convo_same.", "as.", "aso.")) and k not in CONTENT_SKIP:
            out.append(f"{k} appears only with padding")
    return out


# ------------------------------------------------------------------------------------------------
# C14: compound builder

def variant_of(c):
    k = c["k"]
    if k in ("unknown", "custom"):
        return PT_KIND.get(c["type"] if k == "unknown" else c["pt"], "unknown")
    return k


def oracle_C14(ctx, i):
    I, meta = ctx.I[i], ctx.metas[i]
    if meta.get("op") != "build" or meta["cfg"]["k"] != "compound": return []
    cfg = meta["cfg"]
    ms = cfg["members"]
    s = I.get("size", "")
    out = path_failures(I)
    valid = all(not gen.violations(m) for m in ms)
    nonlast_pad = any(gen.eff_padding(m) > 0 for m in ms[:-1])
    should = valid and not nonlast_pad
    if s.startswith("ok:") != should:
        out.append(f"size={s} but members valid={valid}, padding on a non-last member={nonlast_pad}")
        return out
    if not should: return out
    n = int(s[3:])
    imgs = [gen.encode(m) for m in ms]
    if n != sum(map(len, imgs)): out.append(f"size {n} is not the sum of the members' sizes {sum(map(len, imgs))}")
    want = b"".join(imgs)
    for j, (L, fill) in enumerate(meta.get("bufs", [])):
        if I.get(f"w{j}.res") == f"ok:{n}":
            got = unhex(I[f"w{j}.buf"])[:n]
            if canon_image(cfg, got) != canon_image(cfg, want):
                out.append("bytes are not the concatenation of the members' images")
            break
    if I.get("rt.res") == "ok":
        out += adapt_failures({k[3:]: v for k, v in I.items() if k.startswith("rt.") and (k[3:] in ("adapt", "n") or k.endswith(".res"))}, "rt.")
    leaves = gen.flatten(cfg)
    comp = meta.get("leaf_reqs")
    # parsing back is about members that are RTCP packets: a third-party writer whose image is not a
    # whole number of 32-bit words is concatenated like any other, but what follows it is not a tiling
    if leaves and all(len(img) % 4 == 0 for img in map(gen.encode, leaves)):
        if I.get("rt.res") != "ok":
            out.append(f"bytes of a non-empty compound do not parse as a compound: {I.get('rt.res')}")
        elif comp:
            # each item must equal the member parsed on its own (Packet::parse of the member's image),
            # iteration ending with the first member that does not parse
            alone = [ctx.I[c] for c in comp]
            exp = []
            for T in alone:
                exp.append(T)
                if T.get("res") != "ok": break
            if I.get("rt.n") != str(len(exp)): out.append(f"parsing back yields {I.get('rt.n')} packets, expected {len(exp)} ({len(leaves)} members)")
            for j, T in enumerate(exp):
                if I.get(f"rt.p{j}.res") != T.get("res"):
                    out.append(f"member {j} parses back as {I.get(f'rt.p{j}.res')} but as {T.get('res')} on its own"); continue
                for key in ("variant", "version", "type", "count", "length", "padding", "ssrc", "ssrcs", "n_reports", "chunks", "sender_ssrc", "media_ssrc", "name"):
                    if T.get(key) != I.get(f"rt.p{j}.{key}"):
                        out.append(f"member {j}: {key}={I.get(f'rt.p{j}.{key}')} in the compound, {T.get(key)} on its own")
        else:
            # no companion requests: one packet per member, in order, of the member's type and length,
            # as long as the members are packets the generic parser accepts (all but raw unknown /
            # third-party images that carry a known type number with a body of another shape)
            plain = all(l["k"] not in ("unknown", "custom") or variant_of(l) == "unknown" for l in leaves)
            if plain:
                # iteration ends with the first member that does not parse on its own (e.g. an SDES
                # item of type 0, which the builder accepts and the wire format cannot carry)
                bad = [j for j in range(len(leaves)) if I.get(f"rt.p{j}.res", "ok") != "ok"]
                exp_n = bad[0] + 1 if bad else len(leaves)
                if I.get("rt.n") != str(exp_n):
                    out.append(f"parsing back yields {I.get('rt.n')} packets for {len(leaves)} members" + (f" (member {bad[0]} does not parse: {I.get(f'rt.p{bad[0]}.res')})" if bad else ""))
                for j, l in enumerate(leaves):
                    if I.get(f"rt.p{j}.res") not in ("ok", None) or j >= int(I.get("rt.n", "0") or 0): continue
                    if I.get(f"rt.p{j}.variant") != variant_of(l):
                        out.append(f"member {j} is a {variant_of(l)} packet and parses back as {I.get(f'rt.p{j}.variant')}")
                    if I.get(f"rt.p{j}.length") != str(len(gen.encode(l))):
                        out.append(f"member {j} is {len(gen.encode(l))} bytes long and parses back with length {I.get(f'rt.p{j}.length')}")
    return out


# ------------------------------------------------------------------------------------------------
# C15: FCI decoding

FCI_KINDS = ("nack", "fir", "sli", "rpsi", "pli")


def fci_check(kind, v, d, out, tag, base=0):
    """v: rendering of an accepted FCI of `kind` (after ok:), d: the FCI bytes"""
    if kind == "nack":
        want = ",".join(map(str, ref_nack(d))) or "-"
        if v != want: out.append(f"{tag}NACK decodes to {v[:80]}, RFC 4585 says {want[:80]}")
    elif kind == "fir":
        want = ",".join(f"{s}:{q}" for s, q in ref_fir(d)) or "-"
        if v != want: out.append(f"{tag}FIR decodes to {v[:80]}, RFC 5104 says {want[:80]}")
    elif kind == "sli":
        want = ",".join(f"{a}:{b}:{c}" for a, b, c in ref_sli(d)) or "-"
        if v != want: out.append(f"{tag}SLI decodes to {v[:80]}, RFC 4585 says {want[:80]}")
    elif kind == "rpsi":
        ref = ref_rpsi(d)
        parts = v.split(";")
        if ref is None:
            out.append(f"{tag}RPSI accepted a malformed FCI ({d[:8].hex()}..)")
        elif len(parts) != 3 or "@" not in parts[1] or not parts[2].isdigit():
            out.append(f"{tag}rpsi={v[:80]}")
        else:
            sb, o = parse_slice(parts[1])
            have = bits_of(sb)[:max(0, 8 * len(sb) - int(parts[2]))]
            if parts[0] != str(ref[0]): out.append(f"{tag}RPSI payload type {parts[0]}, wire says {ref[0]}")
            if have != ref[1]: out.append(f"{tag}RPSI bit string {have[:64]} expected {ref[1][:64]}")
            if o is None: out.append(f"{tag}RPSI bit string is not a sub-slice of the input")
    elif kind == "pli":
        if len(d) != 0: out.append(f"{tag}PLI accepted a {len(d)}-byte body")


def oracle_C15(ctx, i):
    I, meta = ctx.I[i], ctx.metas[i]
    out = again_failures(I)
    for p, kind, b in view_prefixes(meta):
        out += adapt_failures(pfx(I, p), p, only=lambda kk: kk.startswith(("entries", "fci.")))
        k = kind_name(kind)
        r = I.get(p + "res")
        if k in FCI_KINDS:
            if r != "ok": continue
            key = "rpsi" if k == "rpsi" else "entries"
            if k == "pli": fci_check(k, "", b, out, p)
            elif p + key in I: fci_check(k, I[p + key], b, out, p)
            continue
        if k == "packet":
            k = I.get(p + "variant")
        if k not in ("tfb", "pfb") or r != "ok": continue
        d = b[12:len(b) - padlen(b)]
        fmt = b[0] & 31
        for f in FCI_KINDS:
            v = I.get(f"{p}fci.{f}")
            if v is None or not v.startswith("ok"): continue
            natural = "tfb" if f == "nack" else "pfb"
            if natural != k or gen.FCI_FMT[f] != fmt:
                out.append(f"{p}parse_fci<{f}> succeeded on a {k} packet with format {fmt}")
                continue
            fci_check(f, v[3:] if v.startswith("ok:") else "", d, out, f"{p}fci.{f}: ")
    return out


# ------------------------------------------------------------------------------------------------
# C19: third-party types and the unknown builder

def oracle_helper(I, meta):
    """C19: the public writer helpers for all their parameters"""
    out = []
    nm = meta["name"]
    if nm == "write_header":
        L, cnt, pad, pt = meta["len"], meta["count"], meta["padding"], meta["pt"]
        if L >= 4 and L % 4 == 0 and cnt <= 31 and L <= 262144:
            if I.get("res") != "ok:4": out.append(f"write_header_unchecked returned {I.get('res')} on a {L}-byte buffer")
            elif "buf" in I:
                got = unhex(I["buf"]); before = fill_bytes(L, meta["fill"])
                want = gen.hdr(pt, cnt, L, pad > 0)
                if got[:4] != want: out.append(f"header written {got[:4].hex()} but RFC 3550 says {want.hex()} (type {pt}, padding {pad}, count {cnt}, {L} bytes)")
                if got[4:] != before[4:]: out.append("write_header_unchecked touched bytes beyond the header")
    elif nm == "write_padding":
        L, pad = meta["len"], meta["padding"]
        if pad <= L:
            if I.get("res") != f"ok:{pad}": out.append(f"write_padding_unchecked({pad}) returned {I.get('res')} on a {L}-byte slice")
            elif "buf" in I:
                got = unhex(I["buf"]); before = fill_bytes(L, meta["fill"])
                if got[:pad] != gen.trailer(pad): out.append(f"padding trailer written {got[:pad][-8:].hex()} is not {pad - 1} zeros and the count")
                if got[pad:] != before[pad:]: out.append(f"write_padding_unchecked({pad}) changed bytes beyond the {pad} it reports as written")
    elif nm == "check_padding":
        want = "ok" if meta["padding"] % 4 == 0 else f"err:InvalidPadding({meta['padding']})"
        if I.get("res") != want: out.append(f"check_padding({meta['padding']})={I.get('res')}, expected {want}")
    return out


def oracle_C19(ctx, i):
    I, meta = ctx.I[i], ctx.metas[i]
    out = []
    op = meta.get("op")
    if op == "helper":
        return oracle_helper(I, meta)
    if op == "parse" and isinstance(meta["kind"], (tuple, list)):
        b = meta["bytes"]; mn, pt = meta["kind"][2], meta["kind"][1]
        ok = framed(b, mn, pt)
        r = I.get("res", "")
        if r == "ok" and not ok: out.append(f"check_packet-based parser accepted an ill-framed string")
        if ok and mn + padlen(b) <= len(b) and r != "ok": out.append(f"well-framed custom packet rejected: {r}")
        if r == "ok":
            if "body" in I: chk_slice(I["body"], b, 4, b[4:len(b) - padlen(b)], out, "body")
            if pt not in PT_KIND and I.get("via_packet") not in ("ok", None): out.append(f"via Packet::parse + try_as: {I.get('via_packet')}")
        # a third-party type re-using a type number the crate knows is dispatched to the crate's own parser
        if r == "ok" and pt not in PT_KIND and I.get("via_packet_same") == "false": out.append("conversion through the generic packet differs from the direct parse")
        return out
    if op != "build": return out
    if meta["cfg"]["k"] == "compound":
        return oracle_C14(ctx, i)        # "can be embedded in compounds"
    cfg = leaf(meta["cfg"])
    if cfg["k"] not in ("unknown", "custom") or meta["cfg"]["k"] == "pb" and False: return out
    n = size_of(I)
    if n is None or gen.violations(cfg): return out
    want = gen.encode(cfg)
    for j, (L, fill) in enumerate(meta.get("bufs", [])):
        if I.get(f"w{j}.res") == f"ok:{n}":
            got = unhex(I[f"w{j}.buf"])[:n]
            if got != want:
                out.append(f"written {got[:16].hex()}.. but header/payload/trailer should be {want[:16].hex()}..")
            break
    pt = cfg["type"] if cfg["k"] == "unknown" else cfg["pt"]
    if pt in PT_KIND:
        return out       # a type number the crate knows is parsed by the crate's own typed parser
    if I.get("rt.res") != "ok":
        out.append(f"the written packet is rejected when parsed back: {I.get('rt.res')}")
    elif cfg["k"] == "unknown":
        var = PT_KIND.get(pt, "unknown")
        if I.get("rt.variant") != var: out.append(f"generic parser sees variant {I.get('rt.variant')}")
        if var == "unknown" and "rt.data" in I:
            got, o = parse_slice(I["rt.data"])
            if got != want: out.append("unknown packet does not expose the exact bytes written")
    else:
        if "rt.body" in I:
            got, o = parse_slice(I["rt.body"])
            wb = cfg["body"] + bytes(max(0, cfg["min"] - 4 - len(cfg["body"])))
            if got != wb: out.append(f"custom body {got.hex()[:40]} expected {wb.hex()[:40]}")
        if I.get("rt.padding") != pad_str(cfg["padding"]): out.append(f"custom padding {I.get('rt.padding')}")
        if pt not in PT_KIND and I.get("rt.via_packet") not in ("ok", None): out.append(f"custom via generic packet: {I.get('rt.via_packet')}")
    return out


# ------------------------------------------------------------------------------------------------
# C20: same final configuration => same bytes

def oracle_C20(ctx, i):
    I, meta = ctx.I[i], ctx.metas[i]
    g = meta.get("group")
    if g is not None and g == i:
        # the canonical call sequence itself: bytes and size are those of the final configuration
        return oracle_C07(ctx, i) + oracle_C16(ctx, i) + path_failures(I)
    if g is None: return path_failures(I)
    J = ctx.I[g]
    out = path_failures(I)
    cfg = meta["cfg"]
    if I.get("size") != J.get("size"):
        out.append(f"size {I.get('size')} for call sequence [{meta['style']}] but {J.get('size')} for the canonical sequence")
    for key in sorted(k for k in J if k.endswith(".buf") or k.endswith(".res")):
        a, b = I.get(key), J.get(key)
        if a is None or b is None: continue
        if key.endswith(".buf"):
            n = size_of(J)
            if n is not None:
                a2, b2 = unhex(a), unhex(b)
                if len(a2) >= n and len(b2) >= n:
                    a = canon_image(cfg, a2[:n]).hex(); b = canon_image(cfg, b2[:n]).hex()
        if a != b:
            out.append(f"{key}: call sequence [{meta['style']}] gives {a[:80]}, canonical sequence gives {b[:80]}")
            break
    return out


ORACLES = {f"C{n:02d}": globals().get(f"oracle_C{n:02d}") for n in range(1, 21)}
