"""Writes /verif/corpus/*.json: the witness inputs of every defect found so far (fixed or recorded)
and minimised past failures.  `./check` runs them before the generated streams of each property
they belong to.  Deterministic; run by hand when a witness is added, output is committed."""
import json
import os
import sys

sys.path.insert(0, os.path.dirname(os.path.abspath(__file__)))
import gen  # noqa: E402

OUT = os.path.join(os.path.dirname(os.path.dirname(os.path.abspath(__file__))), "corpus")
ALLP = [f"C{n:02d}" for n in range(1, 21)]


def enc(o):
    if isinstance(o, (bytes, bytearray)): return o.hex()
    raise TypeError(type(o))


def P(kind, hx):
    b = bytes.fromhex(hx.replace(" ", ""))
    ks = f"({kind[0]} {kind[1]} {kind[2]})" if isinstance(kind, tuple) else kind
    return {"request": f"(parse {ks} {gen.B(b)})", "meta": {"op": "parse", "kind": kind}, "bytes_hex": b.hex()}


def PAD(kind, hx, n):
    b = bytes.fromhex(hx.replace(" ", ""))
    return {"request": f"(pad {kind} {gen.B(b)} {n})", "meta": {"op": "pad", "kind": kind, "n": n}, "bytes_hex": b.hex()}


def B(cfg, style="canon", size_only=False):
    expr = gen.render(cfg, None, style)
    if size_only:
        return {"request": f"(size {expr})", "meta": {"op": "size", "cfg": cfg, "expr": expr}}
    n = len(gen.encode(cfg)) if not gen.violations(cfg) else 32
    bufs = [(n, "ee"), (n, "00"), (n + 5, "pat"), (n + 64, "ee"), (0, "00"), (max(0, n - 1), "pat")]
    return {"request": gen.build_req(expr, bufs), "meta": {"op": "build", "cfg": cfg, "expr": expr, "bufs": bufs, "style": style}}


def chunk(ssrc, *items):
    return {"k": "chunk", "ssrc": ssrc, "items": [dict(type=t, value=v, **({"prefix": p} if p is not None else {})) for t, v, p in items]}


ENTRIES = {
    "D01-app-padding-overrun": (["C01", "C08", "C09", "C18"], [P("app", "a0cc0002 00000001 41424365"), P("packet", "a0cc0002 00000001 41424365"),
                                                               P("app", "a0cc0003 00000001 41424344 00000005")]),
    "D02-bye-trailer-position": (["C04", "C06", "C07", "C17"], [B({"k": "bye", "padding": 4, "sources": [1], "reason": b"ab", "reason_call": "reason"}),
                                                                B({"k": "bye", "padding": 8, "sources": [], "reason": b"abc", "reason_call": "reason_owned"}),
                                                                B({"k": "bye", "padding": 4, "sources": [1, 2], "reason": b"abcdefg", "reason_call": "reason"})]),
    "D03-unknown-builder-size": (["C06", "C07", "C16", "C17", "C19"], [B({"k": "unknown", "type": 207, "data": b"\1\2\3\4", "padding": 4, "count": 1}),
                                                                        B({"k": "unknown", "type": 207, "data": b"\1\2\3", "padding": 0, "count": 0}),
                                                                        B({"k": "unknown", "type": 192, "data": b"", "padding": 252, "count": 31})]),
    "D04-sdes-padding-parsed-as-chunks": (["C01", "C03", "C10", "C13"], [P("sdes", "a0ca0001 00000004"), P("sdes", "a1ca0004 98765432 01026162 00000000 00000004"),
                                                                         PAD("sdes", "81ca0003 98765432 01026162 00000000", 4),
                                                                         B({"k": "sdes", "padding": 4, "chunks": [chunk(0x98765432, (1, b"ab", None))]})]),
    "D05-sdes-fill-eats-next-ssrc": (["C03", "C10"], [B({"k": "sdes", "padding": 0, "chunks": [chunk(1, (1, b"a", None)), chunk(0x00223344, (1, b"b", None))]}),
                                                      B({"k": "sdes", "padding": 0, "chunks": [chunk(7, (1, b"abc", None)), chunk(0, (2, b"x", None)), chunk(0x000000ff, )]}),
                                                      P("sdes", "82ca0004 00000001 01016100 00223344 01016200")]),
    "D06-sdes-short-final-item": (["C03", "C10"], [B({"k": "sdes", "padding": 0, "chunks": [chunk(9, (1, b"v" * vl, None), (2, b"", None))]}) for vl in range(0, 8)]
                                  + [P("sdes", "81ca0003 00000009 01016102 01620000".replace("01620000", "01 62 00 00"))]),
    "D07-sdes-priv-prefix-overrun": (["C01", "C10"], [P("sdes", "81ca0003 00000001 08040970 76760000"), P("sdes", "81ca0003 00000001 08040370 76760000"),
                                                      P("sdes", "81ca0003 00000001 08040470 76760000"), P("sdes", "81ca0002 00000001 08010500")]),
    "D08-sdes-chunk-length": (["C10"], [P("sdes", "81ca0003 98765432 01026162 00000000"), P("sdes", "81ca0003 00000001 08040170 76760000")]),
    "D09-feedback-padding": (["C05", "C06", "C07", "C17"], [B({"k": "tfb", "mode": "borrowed", "fci": {"k": "nack", "seqs": [1, 2, 4]}, "padding": 4, "sender": 1, "media": 2}),
                                                            B({"k": "pfb", "mode": "owned", "fci": {"k": "pli"}, "padding": 4, "sender": 1, "media": 2}),
                                                            B({"k": "pfb", "mode": "borrowed", "fci": {"k": "fir", "entries": [(5, 6)]}, "padding": 8, "sender": 1, "media": 2})]),
    "D10-fci-includes-padding": (["C01", "C05", "C13", "C15"], [P("tfb", "a1cd0004 00000001 00000002 00010005 00000004"), P("pfb", "a1ce0003 00000001 00000002 00000004"),
                                                                PAD("tfb", "81cd0003 00000001 00000002 00010005", 4), PAD("pfb", "81ce0002 00000001 00000002", 4),
                                                                P("pfb", "a1ce0002 00000001 00000050")]),
    "D11-rpsi-size": (["C05", "C06", "C07"], [B({"k": "pfb", "mode": "borrowed", "fci": {"k": "rpsi", "pt": 96, "data": bytes(range(1, n + 1)), "overrun": 1 if n else 0},
                                                  "padding": 0, "sender": 1, "media": 2}) for n in (0, 1, 2, 3, 4, 7, 8)]),
    "D12-sli-iterator-bound": (["C01", "C15"], [P("sli", "00000000000000"), P("sli", "0000000000"), P("sli", "000000000000"), P("fir", "00" * 15)]),
    "D13-size-limit": (["C16", "C06"], [B({"k": "app", "ssrc": 3, "name": b"BIG_", "padding": 0, "subtype": 0, "data": bytes(dl)}, size_only=True) for dl in (262132, 262136)]
                       + [B({"k": "unknown", "type": 207, "data": bytes(dl), "padding": 0, "count": 0}, size_only=True) for dl in (262140, 262144)]),
    "D15-empty-fir-sli": (["C05"], [B({"k": "pfb", "mode": "borrowed", "fci": {"k": "fir", "entries": []}, "padding": 0, "sender": 1, "media": 2}),
                                    B({"k": "pfb", "mode": "borrowed", "fci": {"k": "sli", "entries": []}, "padding": 0, "sender": 1, "media": 2})]),
}


def main():
    os.makedirs(OUT, exist_ok=True)
    for name, (propsl, reqs) in ENTRIES.items():
        json.dump({"name": name, "properties": propsl, "requests": reqs}, open(os.path.join(OUT, name + ".json"), "w"), indent=1, default=enc)
    print(len(ENTRIES), "corpus files")


if __name__ == "__main__":
    main()
