"""Coverage-guided discovery of parser inputs on the tree being checked (thorough tier).

`cargo +nightly fuzz` (libFuzzer, installed in the sandbox, works offline) builds
/verif/fuzz/fuzz/fuzz_targets/parse_all.rs against /repo's working tree and runs it for a fixed time
from a seed corpus taken from the property's own request stream.  libFuzzer keeps every input that
reaches new coverage — including branches a change of the crate has just introduced, and constants
it compares against (`-use_value_profile`, compare tracing) — and stores inputs that panic.  Those
inputs come back as ordinary requests.  This is SEARCH for inputs, never a verdict: whatever it
finds is executed by the harness and the model and judged by the property's oracle like any other
request.  Any failure of the fuzzing machinery (no nightly, target does not compile against a
changed API, timeout) is logged and yields no inputs; it never fails a check.
"""
import hashlib
import os
import shutil
import subprocess
import time

import common

FUZZ = os.path.join(common.VERIF, "fuzz")
RUN = os.path.join(common.WORK, "fuzz")


def fuzz_inputs(seeds, seconds, log, workers=8, max_len=1600, cap=4000):
    t0 = time.time()
    try:
        corpus = os.path.join(RUN, "corpus"); arts = os.path.join(RUN, "artifacts")
        shutil.rmtree(RUN, ignore_errors=True)
        os.makedirs(corpus); os.makedirs(arts)
        seen = set()
        for b in seeds:
            if not b or len(b) > max_len: continue
            h = hashlib.sha1(b).hexdigest()
            if h in seen: continue
            seen.add(h)
            open(os.path.join(corpus, h), "wb").write(b)
        env = dict(os.environ, CARGO_NET_OFFLINE="true")
        lk = common._lock("fuzz")
        try:
            p = subprocess.run(["cargo", "+nightly", "fuzz", "build", "parse_all"], cwd=FUZZ, env=env,
                               stdout=subprocess.PIPE, stderr=subprocess.STDOUT, text=True, timeout=600)
            if p.returncode != 0:
                log("fuzzfeed: target does not build against this tree, no fuzz inputs: " + p.stdout[-300:].replace("\n", " | "))
                return []
            p = subprocess.run(["cargo", "+nightly", "fuzz", "run", "parse_all", corpus, "--",
                                f"-max_total_time={seconds}", f"-max_len={max_len}", f"-fork={workers}", "-ignore_crashes=1",
                                "-use_value_profile=1", f"-artifact_prefix={arts}/"], cwd=FUZZ, env=env,
                               stdout=subprocess.PIPE, stderr=subprocess.STDOUT, text=True, timeout=seconds + 300)
        finally:
            lk.close()
        tail = [l for l in p.stdout.split("\n") if "cov:" in l][-1:] or [p.stdout[-200:]]
        new = []
        for d in (arts, corpus):
            for f in sorted(os.listdir(d)):
                b = open(os.path.join(d, f), "rb").read()
                h = hashlib.sha1(b).hexdigest()
                if h in seen or not b: continue
                seen.add(h); new.append(b)
        n_crash = len(os.listdir(arts))
        new.sort(key=len)
        log(f"fuzzfeed: {len(seeds)} seeds, {seconds}s x {workers} workers -> {len(new)} new inputs ({n_crash} stored as crashing), {time.time()-t0:.0f}s; {tail[0].strip()[:140]}")
        shutil.rmtree(RUN, ignore_errors=True)
        return new[:cap]
    except Exception as e:      # noqa: BLE001 — search support must never break a check
        log(f"fuzzfeed: failed ({type(e).__name__}: {e}), no fuzz inputs")
        return []
