"""Request streams per family: (request string, meta dict) lists.

Three kinds of stream per family (DESIGN §5.2): exhaustive small scope, structured
valid-then-damaged, random.  `tier` is 'quick' or 'thorough'."""
import struct

import gen
from common import hexb
from gen import B

KIND_PT = {"app": 204, "bye": 203, "rr": 201, "sr": 200, "sdes": 202, "tfb": 205, "pfb": 206}
KIND_MIN = {"app": 12, "bye": 4, "rr": 8, "sr": 28, "sdes": 4, "tfb": 12, "pfb": 12, "unknown": 4, "packet": 4}
TYPED = ["app", "bye", "rr", "sr", "sdes", "tfb", "pfb"]
ALPHA = [0x00, 0x01, 0x04, 0x08, 0x80, 0xff]


def P(kind, b, **meta):
    if isinstance(kind, tuple):
        ks = f"({kind[0]} {kind[1]} {kind[2]})"
    else:
        ks = kind
    m = {"op": "parse", "kind": kind, "bytes": b}
    m.update(meta)
    return (f"(parse {ks} {B(b)})", m)


def header_grid(kind, r, tier):
    """exhaustive-ish header space for a typed parser"""
    out = []
    if isinstance(kind, tuple):
        pt, mn = kind[1], kind[2]
    else:
        pt = KIND_PT.get(kind, 207); mn = KIND_MIN[kind]
    if tier == "thorough":
        firsts = list(range(256))
        lens = list(range(0, 41))
    else:
        firsts = [0x80, 0x81, 0x82, 0x9f, 0xa0, 0xa1, 0xbf, 0x00, 0x40, 0xc0, 0x20, 0x60, 0xe1, 0x83, 0xa2]
        lens = sorted(set(list(range(0, 6)) + [mn - 1, mn, mn + 1, mn + 3, mn + 4, mn + 8, mn + 24, mn + 25, 36, 40]))
        lens = [l for l in lens if l >= 0]
    pts = [pt, 200 if pt != 200 else 201, 207, 204 if pt != 204 else 203]
    for f in firsts:
        for L in lens:
            for p in (pts if tier == "thorough" or f in (0x80, 0x81, 0xa0) else pts[:2]):
                true_lf = L // 4 - 1
                for lf in {true_lf, true_lf + 1, true_lf - 1, 0, 0xffff}:
                    if lf < 0:
                        lf &= 0xffff
                    if tier != "thorough" and lf in (0, 0xffff) and r.random() < 0.6:
                        continue
                    body = bytes(r.choice(ALPHA) for _ in range(max(0, L - 4)))
                    # make the last byte interesting when P is set
                    if L > 4 and f & 0x20 and r.random() < 0.7:
                        body = body[:-1] + bytes([r.choice([0, 1, 4, (L - mn) & 0xff, (L - mn + 1) & 0xff, L & 0xff, 255, 8])])
                    b = (bytes([f, p]) + struct.pack(">H", lf) + body)[:L]
                    out.append(P(kind, b))
    return out


def wf_cfg_for(kind, r):
    """a valid configuration whose encoding is a well-formed packet of `kind`"""
    while True:
        if kind == "app": c = gen.cfg_app(r)
        elif kind == "bye": c = gen.cfg_bye(r)
        elif kind == "rr": c = gen.cfg_rr(r)
        elif kind == "sr": c = gen.cfg_sr(r)
        elif kind == "sdes": c = gen.cfg_sdes(r)
        elif kind in ("tfb", "pfb"):
            c = gen.cfg_fb(r, k=kind, fci_kind="nack" if kind == "tfb" else r.choice(["fir", "sli", "rpsi", "pli"]))
            if c["fci"]["k"] == "sli":
                c["fci"] = gen.r_sli(r, in_range=True)
        elif kind == "unknown": c = gen.cfg_unknown(r)
        elif kind == "packet": return wf_cfg_for(r.choice(TYPED + ["unknown"]), r)
        elif isinstance(kind, tuple):
            c = gen.cfg_custom(r); c["pt"] = kind[1]; c["min"] = kind[2]
        else: raise ValueError(kind)
        if kind == "sdes":
            # round-trippable items only: no type 0
            for ch in c["chunks"]:
                for it in ch["items"]:
                    if it["type"] == 0: it["type"] = 1
        if not gen.violations(c):
            return c


def structured(kind, r, n, dmg=5):
    out = []
    for _ in range(n):
        c = wf_cfg_for(kind, r)
        b = gen.encode(c)
        out.append(P(kind, b, wf=c))
        for d in gen.damages(r, b, dmg):
            out.append(P(kind, d))
    return out


def random_bytes(kind, r, n, maxlen=64):
    out = []
    for _ in range(n):
        L = r.choice([0, 1, 2, 3, 4, 5, 7, 8, 12, 16, 20, 24, 28, 32, r.randint(0, maxlen)])
        b = bytearray(gen.r_bytes(r, L))
        if L >= 4 and r.random() < 0.8:
            # plausible header
            pt = KIND_PT.get(kind, r.choice([200, 201, 202, 203, 204, 205, 206, 207, 192])) if not isinstance(kind, tuple) else kind[1]
            b[0] = 0x80 | (b[0] & 0x3f)
            b[1] = pt if r.random() < 0.85 else r.getrandbits(8)
            if r.random() < 0.85:
                b[2:4] = struct.pack(">H", (L // 4 - 1) & 0xffff)
        if L >= 8 and r.random() < 0.15 and gen.DICT_U32:
            o = 4 * r.randrange(1, L // 4)
            b[o:o + 4] = struct.pack(">I", r.choice(gen.DICT_U32))
        out.append(P(kind, bytes(b)))
    return out


def dict_words(kind, r):
    """a well-formed packet of `kind` with every harvested 32-bit constant as its first body word"""
    out = []
    if isinstance(kind, tuple) or kind in ("unknown", "packet"): return out
    for w in gen.DICT_U32:
        c = wf_cfg_for(kind, r)
        b = bytearray(gen.encode(c))
        if len(b) >= 8:
            b[4:8] = struct.pack(">I", w)
            out.append(P(kind, bytes(b)))
    return out


def typed_stream(kind, r, tier):
    n = 300 if tier == "quick" else 3000
    s = dict_words(kind, r) + header_grid(kind, r, tier)
    s += structured(kind, r, n)
    s += random_bytes(kind, r, n * 3)
    return s


# ---- SDES bodies -----------------------------------------------------------------------------

def sdes_frame(body, padding=0):
    L = 4 + len(body) + padding
    tr = gen.trailer(padding)
    return gen.hdr(202, 1, L, padding > 0) + body + tr


def sdes_short_bodies(r, tier):
    """exhaustive short bodies over a small alphabet (C10)"""
    out = []
    import itertools
    alpha = [0, 1, 2, 8, 0xff]
    maxlen = 8 if tier == "thorough" else 8
    for L in (0, 4, 8):
        if L == 8 and tier != "thorough":
            # sample 8-byte bodies, exhaustive 4-byte
            for _ in range(3000):
                body = bytes(r.choice(alpha) for _ in range(8))
                out.append(P("sdes", sdes_frame(body)))
            continue
        for t in itertools.product(alpha, repeat=L):
            out.append(P("sdes", sdes_frame(bytes(t))))
    if tier == "thorough":
        for t in itertools.product([0, 1, 2, 8], repeat=4):
            for u in itertools.product([0, 1, 8, 0xff], repeat=4):
                out.append(P("sdes", sdes_frame(bytes([0, 0, 0, 1]) + bytes(t) + bytes(u))))
    return out


def sdes_wf_variants(r, n):
    """encoder output with boundary-adjacent bytes varied"""
    out = []
    for _ in range(n):
        c = wf_cfg_for("sdes", r)
        b = gen.encode(c)
        out.append(P("sdes", b, wf=c))
        body = bytearray(b[4:len(b) - c["padding"]])
        if not body:
            continue
        # non-zero fill byte / missing terminator / next SSRC starting with 00
        for _ in range(3):
            i = r.randrange(len(body))
            if body[i] == 0:
                bb = bytearray(body); bb[i] = r.choice([1, 2, 8, 0xff])
                out.append(P("sdes", sdes_frame(bytes(bb), c["padding"])))
        # truncate the body at every 4-byte boundary
        for cut in range(4, len(body), 4):
            if r.random() < 0.3:
                out.append(P("sdes", sdes_frame(bytes(body[:cut]), c["padding"])))
    return out


# ---- compound --------------------------------------------------------------------------------

def tile(r, valid=True, L=None):
    """one tile: a packet of total length L that is valid (parses) or not"""
    if valid:
        k = r.choice(["rr", "bye", "unknown", "app", "sdes", "tfb", "pfb", "sr"])
        c = wf_cfg_for(k, r)
        if c.get("padding") and r.random() < 0.7: c["padding"] = 0
        return gen.encode(c)
    if L is None and r.random() < 0.6:
        t = bad_tile(r)
        if t is not None: return t
    L = L or r.choice([4, 8, 12])
    pt = r.choice([200, 201, 202, 203, 204, 205, 206])
    x = r.random()
    if x < 0.4:   # wrong version
        return bytes([r.choice([0x00, 0x40, 0xc0]), pt]) + struct.pack(">H", L // 4 - 1) + bytes(L - 4)
    if x < 0.7:   # too short for its type
        return bytes([0x80, 200]) + struct.pack(">H", L // 4 - 1) + bytes(L - 4)
    return bytes([0xa0, pt]) + struct.pack(">H", L // 4 - 1) + bytes(L - 4)   # padding 0


SDES_BAD = [
    "81ca0003 00000001 08040970 76760000",      # PRIV prefix longer than its item
    "81ca0003 00000001 08030361 62000000",      # PRIV prefix = item length
    "81ca0002 00000001 08000000",               # PRIV item without room for the prefix length
    "81ca0002 00000001 01096162",               # item overruns the packet
    "81ca0003 00000001 01016100 00000100",      # non-zero fill / truncated second chunk
    "81ca0002 00000001 01026162",               # no terminator
    "82ca0002 00000001 00000000",               # fewer chunks than announced (lenient) / ok
    "a1ca0002 00000001 00000000",               # padding bit with zero count
    "a1ca0002 00000001 00000009",               # padding count beyond the packet
]


def bad_tile(r):
    """a tile whose own length field is right (so the datagram still tiles) but which the generic
    parser refuses, for as many different reasons as possible"""
    x = r.random()
    if x < 0.3:
        return bytes.fromhex(r.choice(SDES_BAD).replace(" ", ""))
    k = r.choice(["rr", "bye", "app", "sdes", "tfb", "pfb", "sr"])
    c = wf_cfg_for(k, r)
    p = gen.encode(c)
    cands = [d for d in gen.damages(r, p, 40) if len(d) == len(p) and d[2:4] == p[2:4]]
    return r.choice(cands) if cands else None


def compound_stream(r, tier):
    out = []
    n = 1200 if tier == "quick" else 12000
    import itertools
    # all tilings of lengths {4,8,12} up to 4 tiles with valid/invalid flags
    for k in range(1, 5):
        for lens in itertools.product([4, 8, 12], repeat=k):
            for flags in itertools.product([True, False], repeat=k):
                if tier == "quick" and r.random() < 0.85:
                    continue
                tiles = []
                for L, ok in zip(lens, flags):
                    if ok:
                        t = bytes([0x80, r.choice([207, 192, 203 if L == 4 else 201 if L == 8 else 204])]) + struct.pack(">H", L // 4 - 1) + bytes(L - 4)
                        if t[1] == 203: t = bytes([0x80, 203, 0, 0])
                    else:
                        t = tile(r, False, L)
                    tiles.append(t)
                out.append(P("compound", b"".join(tiles), tiles=[len(t) for t in tiles]))
    for w in gen.DICT_U32:
        for pt in (201, 207):
            out.append(P("compound", bytes([0x80, pt, 0, 1]) + struct.pack(">I", w) + bytes([0x81, 203, 0, 1, 0, 0, 0, 7])))
            out.append(P("compound", bytes([0x81, 203, 0, 1, 0, 0, 0, 7, 0x80, pt, 0, 1]) + struct.pack(">I", w)))
    for _ in range(n):
        k = r.choice([1, 1, 2, 2, 3, 4, 6])
        tiles = [tile(r, r.random() < 0.8) for _ in range(k)]
        b = b"".join(tiles)
        out.append(P("compound", b, tiles=[len(t) for t in tiles]))
        x = r.random()
        if x < 0.2: out.append(P("compound", b[:-r.randint(1, 4)]))
        elif x < 0.4: out.append(P("compound", b + bytes(r.randint(1, 5))))
        elif x < 0.5:
            # over-claiming last tile
            lt = tiles[-1]
            lt = lt[:2] + struct.pack(">H", len(lt) // 4) + lt[4:]
            out.append(P("compound", b"".join(tiles[:-1]) + lt))
        elif x < 0.55:
            out.append(P("compound", b + b"\x80\xcf\x00\x00"))
    out.append(P("compound", b""))
    for L in range(1, 9):
        out.append(P("compound", bytes([0x80, 201, 0, 1, 0, 0, 0, 0][:L])))
    return out


# ---- FCI direct ------------------------------------------------------------------------------

def fci_stream(kind, r, tier):
    out = []
    n = 800 if tier == "quick" else 8000
    for L in range(0, 41):
        for _ in range(3 if tier == "quick" else 30):
            out.append(P(kind, gen.r_bytes(r, L)))
    for _ in range(n):
        f = gen.r_fci(r, kind)
        if gen.violations(f):
            continue
        b = gen.enc_fci(f)
        out.append(P(kind, b))
        if b and r.random() < 0.5:
            out.append(P(kind, b[:-r.randint(1, min(3, len(b)))]))
        out.append(P(kind, b + gen.r_bytes(r, r.randint(1, 7))))
    if kind == "nack":
        pids = [0, 1, 16, 65519, 65520, 65534, 65535, r.getrandbits(16)]
        step = 1 if tier == "thorough" else 37
        for m in range(0, 65536, step):
            pid = pids[m % len(pids)] if tier != "thorough" else None
            for p in ([pid] if pid is not None else pids):
                out.append(P(kind, struct.pack(">HH", p, m)))
        masks = [0, 1, 0x8000, 0xffff, 0x5555, 0xaaaa, 0x0100, r.getrandbits(16)]
        for p in range(0, 65536, step):
            for m in (masks if tier == "thorough" else [masks[p % len(masks)]]):
                out.append(P(kind, struct.pack(">HH", p, m)))
        # last set bit at 16, multiple words
        out.append(P(kind, struct.pack(">HHHH", 65530, 0xffff, 10, 0x8001)))
    if kind == "sli":
        step = 1 if tier == "thorough" else 29
        for v in range(0, 8192, step):
            for o in ((0, 0), (8191, 63)):
                out.append(P(kind, struct.pack(">I", (v << 19) | (o[0] << 6) | o[1])))
                out.append(P(kind, struct.pack(">I", (o[0] << 19) | (v << 6) | o[1])))
        for v in range(64):
            out.append(P(kind, struct.pack(">I", (8191 << 19) | v)))
            out.append(P(kind, struct.pack(">I", v)))
        for v in range(0, 65536, 1 if tier == "thorough" else 53):
            out.append(P(kind, struct.pack(">HH", v, r.getrandbits(16))))
            out.append(P(kind, bytes([r.getrandbits(8)]) + struct.pack(">H", v) + bytes([r.getrandbits(8)])))
            out.append(P(kind, struct.pack(">HH", r.getrandbits(16), v)))
    if kind == "rpsi":
        for b0 in range(256):
            for L in (4, 5, 8, 12, 36):
                out.append(P(kind, bytes([b0, r.getrandbits(8)]) + gen.r_bytes(r, L - 2)))
    return out


def rb_stream(r, tier):
    out = []
    for L in range(0, 50):
        for _ in range(2):
            out.append(P("rb", gen.r_bytes(r, L)))
    for _ in range(400 if tier == "quick" else 6000):
        out.append(P("rb", gen.enc_rb(gen.r_rb(r))))
    for cl in (0, 1, 0xff, 0x100, 0xffff, 0x10000, 0xffffff):
        for fl in (0, 0x80, 0xff):
            rb = gen.r_rb(r); rb["cl"] = cl; rb["fl"] = fl
            out.append(P("rb", gen.enc_rb(rb)))
    return out


def fb_fci_stream(r, tier):
    """feedback packets with every (kind, format 0..31) and arbitrary FCI bytes (C15)"""
    out = []
    reps = 8 if tier == "quick" else 80
    for pt in (205, 206):
        kind = "tfb" if pt == 205 else "pfb"
        for fmt in range(32):
            for _ in range(reps):
                L = r.choice([0, 4, 8, 12, 16, 20, 24, 40])
                fci = gen.r_bytes(r, L)
                if fmt == 3 and L >= 4 and r.random() < 0.7:
                    fci = bytes([min(255, r.choice([0, 7, 8, 9, 16, 24, 8 * (L - 2), 8 * (L - 2) + 8, 255, r.getrandbits(8)]))]) + fci[1:]
                pad = r.choice([0, 0, 0, 4, 8])
                body = struct.pack(">II", gen.r_u32(r), gen.r_u32(r)) + fci + gen.trailer(pad)
                b = gen.hdr(pt, fmt, 4 + len(body), pad > 0) + body
                out.append(P(kind, b))
                if r.random() < 0.3:
                    out.append(P("packet", b))
    return out


def big_inputs(r):
    """inputs > 64 KiB"""
    out = []
    for kind, pt in (("app", 204), ("unknown", 207), ("packet", 207), ("tfb", 205), ("sdes", 202)):
        L = 65540 + 4 * r.randint(0, 8)
        body = bytes(L - 4) if kind != "tfb" else struct.pack(">II", 1, 2) + bytes(L - 12)
        b = gen.hdr(pt, 1, L) + body
        out.append(P(kind, b))
    out.append(P("compound", gen.hdr(201, 0, 8) + bytes(4) + gen.hdr(207, 0, 65540) + bytes(65536)))
    out.append(P("nack", bytes(65540)))
    out.append(P("app", bytes(70000)))
    # padded packets beyond 64 KiB: the padding count sits at an offset that does not fit 16 bits
    for kind, pt in (("app", 204), ("unknown", 207), ("packet", 204), ("packet", 242), ("pfb", 206), ("rr", 201), ("bye", 203)):
        for L in (65540, 65544, 65552, 4 * r.randint(16386, 30000), 131072, 131076):
            last = r.choice([0, 0, 4, 8, 85, 252, 255])
            body = bytearray(r.getrandbits(8) | 1 for _ in range(L - 4))
            if kind == "pfb": body[:8] = struct.pack(">II", 1, 2)
            body[-1] = last
            cnt = {"rr": 0, "bye": r.choice([0, 1, 31]), "pfb": r.choice([1, 3, 3])}.get(kind, r.getrandbits(5))
            b = bytes([0xa0 | cnt, pt]) + struct.pack(">H", (L // 4 - 1) & 0xffff) + bytes(body)
            if L // 4 - 1 > 0xffff: continue
            out.append(P(kind, b))
            if last and r.random() < 0.5:
                out.append(P(kind, bytes([0x80 | cnt]) + b[1:]))
    return out


def length_patterns(r):
    """packets whose 16-bit length field has a remarkable byte pattern (low byte ff, odd high byte,
    high byte only, ...), alone, as compound tiles, and cut short: arithmetic on the two length
    octets done by hand goes wrong exactly there"""
    out = []
    for lf in (0x00fe, 0x00ff, 0x0100, 0x01ff, 0x0200, 0x02ff, 0x03ff, 0x0fff, 0x10ff, 0x3fff, 0x7fff):
        L = 4 * (lf + 1)
        body = bytes(r.getrandbits(8) | 1 for _ in range(L - 4))
        for kind, pt in (("app", 204), ("unknown", 207), ("packet", 204), ("packet", 207)):
            cnt = r.getrandbits(5)
            b = bytes([0x80 | cnt, pt]) + struct.pack(">H", lf) + body
            out.append(P(kind, b))
        if L <= 20000:
            t = bytes([0x80, 207]) + struct.pack(">H", lf) + body
            bye = bytes([0x81, 203, 0, 1, 0, 0, 0, 7])
            rr = bytes([0x80, 201, 0, 1, 0, 0, 0, 9])
            for d in (t + bye, rr + t, rr + t + bye, t[:L - 1024] if L > 1028 else t[:L - 4], rr + t[:L - 1024] if L > 1028 else rr + t[:8],
                      bytes([0x80, 207]) + struct.pack(">H", lf) + bytes(L - 4) + bye):
                out.append(P("compound", d))
    return out


def sdes_many_chunks(r):
    """SDES bodies with more than 31 chunks (the 5-bit count cannot say so; the RFC leaves it to the
    tokenisation), with and without a defect in a late chunk"""
    out = []
    def good(i): return struct.pack(">I", 0x01000000 + i) + bytes([1, 1, 0x61 + i % 26, 0])
    bads = [struct.pack(">I", 5) + bytes([1, 9, 0x61, 0]),                 # item overruns the packet
            struct.pack(">I", 5) + bytes([8, 2, 9, 0x70]),                 # PRIV prefix overruns its item
            struct.pack(">I", 5) + bytes([1, 1, 0x61, 0, 0, 1, 0, 0])[:8]]  # stray non-zero octet after the terminator
    for n in (31, 32, 33, 34, 40, 63, 64, 65):
        chunks = [good(i) for i in range(n)]
        fr = sdes_frame(b"".join(chunks))
        out.append(P("sdes", bytes([0x80 | (n & 31)]) + fr[1:]))
        for badpos in sorted({n - 1, min(31, n - 1), min(32, n - 1)}):
            for bad in bads:
                cs = list(chunks); cs[badpos] = bad
                body = b"".join(cs)
                body += bytes((-len(body)) % 4)
                fr = sdes_frame(body)
                out.append(P("sdes", bytes([0x80 | (n & 31)]) + fr[1:]))
    return out


def sdes_big_chunks(r):
    """well-formed SDES packets whose single chunk is as long as 16 bits can say, one word less, one
    word more, and near the packet limit (a chunk has no length field: its length is what the
    tokenisation finds, `SdesChunk::length()` must report it whatever its size); and chunks of
    65535 / 65536 / 65537 ITEMS (empty values)"""
    out = []
    def chunk_of(total):
        # 4 (ssrc) + k items of 257 octets + one item that decides the total + terminator/fill
        k = (total - 4 - 4) // 257
        body = struct.pack(">I", 0x01020304) + b"".join(bytes([1, 255]) + bytes([0x61 + i % 26]) * 255 for i in range(k))
        rest = total - len(body) - 1          # octets left for the deciding item (2 + value), before >= 1 terminator
        v = max(0, min(255, rest - 2))
        body += bytes([2, v]) + b"y" * v
        body += bytes(total - len(body))
        return body
    for total in (65532, 65536, 65540, 65800, 131072, 262136):
        b = chunk_of(total)
        assert len(b) == total and total % 4 == 0
        out.append(P("sdes", gen.hdr(202, 1, 4 + total) + b))
        out.append(P("packet", gen.hdr(202, 1, 4 + total) + b))
    for n in (65535, 65536, 65537):
        body = struct.pack(">I", 7) + bytes([1, 0]) * n
        body += bytes(4 - len(body) % 4)
        out.append(P("sdes", gen.hdr(202, 1, 4 + len(body)) + body))
    return out


def sdes_priv_utf8(r):
    """PRIV items whose prefix-length octet cuts a multi-byte UTF-8 character of prefix+value in two"""
    out = []
    for text in ("aé", "é", "a€b", "€", "abécd", "😀", "x😀y"):
        t = text.encode("utf-8")
        for pl in range(0, len(t) + 2):
            item = bytes([8, 1 + len(t), pl]) + t
            body = struct.pack(">I", 0x11223344) + item + bytes(1)
            body += bytes((-len(body)) % 4)
            out.append(P("sdes", sdes_frame(body)))
            out.append(P("packet", sdes_frame(body)))
    return out


def report_extensions(r, n=60):
    """SR / RR with a profile-specific extension (RFC 3550 §6.4.1/2) after the report blocks"""
    out = []
    for _ in range(n):
        k = r.choice(["rr", "sr"])
        c = wf_cfg_for(k, r); c["padding"] = 0
        b = gen.encode(c)
        ext = bytes(r.getrandbits(8) for _ in range(4 * r.choice([1, 2, 6, 7])))
        q = b[:2] + struct.pack(">H", (len(b) + len(ext)) // 4 - 1) + b[4:] + ext
        out.append((q, k))
    return out


PARSE_MINS = [4, 6, 8, 12, 13, 20]      # third-party minimum lengths, also ones that are not whole words


def congruent_lengths(r):
    """strings longer than 65536 words whose 16-bit length field equals (len/4 - 1) mod 65536"""
    out = []
    for lf in (0, 1, 5):
        for wraps in (1, 2):
            L = 4 * (lf + 1) + wraps * 262144
            for kind, pt in (("unknown", 210), ("packet", 210), ("packet", 204), ("app", 204)):
                b = bytes([0x80, pt]) + struct.pack(">H", lf) + bytes(L - 4)
                out.append(P(kind, b))
    return out


def midsize_padded(r):
    """typed packets of 250..300 and 500..1100 bytes with the P bit and a last octet around every
    value that matters (0, 1, the body size, 249..255)"""
    out = []
    for kind, pt, mn in (("app", 204, 12), ("tfb", 205, 12), ("pfb", 206, 12), ("sdes", 202, 4), ("rr", 201, 8), ("sr", 200, 28), ("bye", 203, 4), ("packet", 204, 12), ("packet", 205, 12)):
        for L in (252, 256, 260, 264, 268, 272, 276, 512, 1024):
            for last in (0, 1, 4, 8, (L - mn) & 0xff, (L - mn + 1) & 0xff, 248, 249, 252, 253, 255):
                body = bytearray(r.getrandbits(8) for _ in range(L - 4))
                if kind in ("tfb", "pfb"): body[:8] = struct.pack(">II", 1, 2)
                body[-1] = last
                cnt = {"rr": 0, "sr": 0, "bye": r.choice([0, 1]), "tfb": 1, "pfb": r.choice([1, 2, 3, 4]), "sdes": 1}.get(kind, r.getrandbits(5))
                out.append(P(kind, bytes([0xa0 | cnt, pt]) + struct.pack(">H", L // 4 - 1) + bytes(body)))
    return out


def many_tiles(r):
    """datagrams of 65536 and more tiles (a 16-bit tile counter would wrap)"""
    out = []
    bye = bytes([0x80, 203, 0, 0])
    for n in (65537,):
        out.append(P("compound", bye * n))
    bad = bytes([0x40, 203, 0, 0])       # version 1
    out.append(P("compound", bye * 69000 + bad + bye * 1000))
    return out


SPECIAL_TEXTS = ["\ufeffsession closed", "\ufeff", "a\ufeff", "bye\n", "bye\r\n", "bye\r", " bye", "bye ", "bye\0", "\0bye", "bye\t",
                 "\U0001f600", "x\U0001f600", "user@host", "@", "\u200bz", "BYE", "bye.", "caf\u00e9", "e\u0301"]


def bye_reason_lengths(r):
    """BYE packets whose reason length octet is every value around what the packet holds (fits with room,
    fits exactly, overruns by one, by a word, by much), for 0..2 sources and every small packet size"""
    out = []
    for ns in (0, 1, 2):
        src = b"".join(struct.pack(">I", 0x0a0b0c00 + i) for i in range(ns))
        for words in (1, 2, 3, 4):
            room = 4 * words - 1                     # octets after the length octet
            for rl in sorted({0, 1, room - 4, room - 1, room, room + 1, room + 2, room + 4, room + 5, 255} - {-1, -2, -3}):
                if rl < 0: continue
                text = bytes(0x61 + (i % 26) for i in range(room))
                body = src + bytes([rl]) + text
                b = bytes([0x80 | ns, 203]) + struct.pack(">H", (4 + len(body)) // 4 - 1) + body
                out.append(P("bye", b)); out.append(P("packet", b))
    return out


def bye_empty_reason(r):
    """BYE packets whose reason is present and empty (`00 00 00 00` after the sources), and near misses;
    no builder writes them: parsed directly, through the generic parser, and padded"""
    out = []
    for ns in (0, 1, 2, 31):
        src = b"".join(struct.pack(">I", 0x01020300 + i) for i in range(ns))
        for tail in (bytes(4), bytes([0, 0, 0, 1]), bytes([0, 1, 0, 0]), bytes([1, 0x61, 0, 0]), bytes([0, 0x61, 0x62, 0x63]), bytes(8), bytes([3, 0, 0, 0])):
            body = src + tail
            b = bytes([0x80 | ns, 203]) + struct.pack(">H", (4 + len(body)) // 4 - 1) + body
            out.append(P("bye", b)); out.append(P("packet", b))
            for n in (4, 8, 252):
                out.append((f"(pad bye {B(b)} {n})", {"op": "pad", "kind": "bye", "bytes": b, "n": n}))
                out.append((f"(pad packet {B(b)} {n})", {"op": "pad", "kind": "packet", "bytes": b, "n": n}))
    return out


def custom_kinds():
    """third-party parser kinds: the family with the default MAX_COUNT and a subset of the family
    that overrides it with 16 (the crate must treat it as a maximum nobody enforces, never as a mask)"""
    return ([("custom", pt, mn) for pt in gen.CUSTOM_PTS for mn in PARSE_MINS]
            + [("custom16", pt, mn) for pt in (242, 200, 207) for mn in PARSE_MINS])


def helper_stream(r, tier):
    """direct calls of the public helpers of utils::writer / utils::parser for all their parameters"""
    out = []
    H = lambda q, **m: (q, dict({"op": "helper"}, **m))
    lens = list(range(0, 14)) + [16, 20, 64, 1024, 4096, 65536, 262144]
    for pt in gen.CUSTOM_PTS:
        for pad in (0, 4, 8, 252, 255, 1):
            for cnt in (0, 1, 31, 32, 255, r.getrandbits(5)):
                for L in (lens if (pt in (242, 200) and pad in (0, 4)) else [4, 8, r.choice(lens)]):
                    fill = r.choice(["ee", "00", "pat"])
                    out.append(H(f"(helper write_header {pt} {pad} {cnt} {L} {fill})", name="write_header", pt=pt, padding=pad, count=cnt, len=L, fill=fill))
    for p in range(256):
        for L in sorted({max(0, p - 1), p, p + 1, p + 7, 300}):
            fill = r.choice(["ee", "pat", "00"])
            out.append(H(f"(helper write_padding {p} {L} {fill})", name="write_padding", padding=p, len=L, fill=fill))
    for p in range(256):
        out.append(H(f"(helper check_padding {p})", name="check_padding", padding=p))
    for _ in range(300 if tier == "quick" else 5000):
        b = gen.r_bytes(r, r.choice([0, 1, 2, 3, 4, 5, 7, 8, 12, r.randint(0, 16)]))
        out.append(H(f"(helper parse_fields {B(b)})", name="parse_fields", bytes=b))
    return out


# ---- build streams ---------------------------------------------------------------------------

def Bd(cfg, expr, **meta):
    m = {"op": "build", "cfg": cfg, "expr": expr}
    m.update(meta)
    return m


def build_cfgs(kind, r, tier):
    """random + boundary configurations of one builder kind"""
    n = {"quick": 600, "thorough": 8000}[tier]
    out = []
    fn = {"sr": gen.cfg_sr, "rr": gen.cfg_rr, "bye": gen.cfg_bye, "app": gen.cfg_app, "sdes": gen.cfg_sdes,
          "unknown": gen.cfg_unknown, "fb": gen.cfg_fb, "custom": gen.cfg_custom, "compound": gen.cfg_compound,
          "chunk": gen.r_chunk, "item": lambda r: dict(gen.r_item(r), k="item"),
          "fci": gen.r_fci, "pb": lambda r: {"k": "pb", "inner": gen.cfg_packet(r)}}[kind]
    for _ in range(n):
        out.append(fn(r))
    out += boundary_cfgs(kind, r, tier)
    return out


def boundary_cfgs(kind, r, tier):
    """every limit from both sides, every padding, every residue"""
    out = []
    full = tier == "thorough"
    pads_all = list(range(256)) if full else [0, 1, 2, 3, 4, 5, 8, 12, 16, 128, 248, 251, 252, 253, 254, 255]
    pads_legal = [0, 4, 8, 252] if not full else list(range(0, 256, 4))
    if kind == "bye":
        for rl in (range(0, 258) if full else list(range(0, 10)) + [127, 128, 253, 254, 255, 256, 257]):
            for p in (pads_legal if full else [0, 4, 252]):
                for ns in ((0, 1, 31) if full else (r.choice([0, 1, 31]),)):
                    out.append({"k": "bye", "padding": p, "sources": [gen.r_u32(r) for _ in range(ns)],
                                "reason": gen.r_text(r, rl) if rl else None, "reason_call": r.choice(["reason", "reason_owned"])})
        for p in pads_all:
            out.append({"k": "bye", "padding": p, "sources": [7], "reason": b"ab", "reason_call": "reason"})
        for ns in list(range(0, 35)) + [63, 64, 65, 255, 256, 257, 287, 288, 512, 543]:
            out.append({"k": "bye", "padding": 0, "sources": list(range(ns)), "reason": None if ns % 2 else b"bye", "reason_call": "reason"})
        for txt in (" ", "  ", "\t", "\r\n", "\u00a0\u2003", " a", "a ", "\n", "\0", " \0"):
            for p_ in (0, 4):
                out.append({"k": "bye", "padding": p_, "sources": [3], "reason": txt.encode(), "reason_call": r.choice(["reason", "reason_owned"])})
        for rl in (255, 256, 257, 258, 300, 511, 512, 513):
            for ns in (0, 1, 31):
                out.append({"k": "bye", "padding": r.choice(pads_legal), "sources": list(range(ns)), "reason": gen.r_text(r, rl),
                            "reason_call": r.choice(["reason", "reason_owned"])})
        # texts whose ends a well-meaning setter might touch, through BOTH setters
        for txt in SPECIAL_TEXTS:
            for call in ("reason", "reason_owned"):
                out.append({"k": "bye", "padding": r.choice([0, 4]), "sources": [r.choice([0, 9])], "reason": txt.encode(), "reason_call": call, "_keep": True})
    elif kind in ("sr", "rr"):
        for nb in range(0, 34):
            c = (gen.cfg_sr if kind == "sr" else gen.cfg_rr)(r)
            c["rbs"] = [gen.r_rb(r) for _ in range(nb)]; c["padding"] = r.choice(pads_legal)
            out.append(c)
        # far beyond the limit, at counts that alias 0..31 modulo 32 / 256 (a count kept in a narrow integer)
        for nb in (63, 64, 65, 95, 255, 256, 257, 287, 288, 512, 543):
            c = (gen.cfg_sr if kind == "sr" else gen.cfg_rr)(r)
            c["rbs"] = [gen.r_rb(r) for _ in range(nb)]; c["padding"] = r.choice([0, 4])
            out.append(c)
        for p in pads_all:
            c = (gen.cfg_sr if kind == "sr" else gen.cfg_rr)(r); c["padding"] = p; c["rbs"] = c["rbs"][:2]
            for rb in c["rbs"]: rb["cl"] &= 0xffffff
            out.append(c)
        for cl in (0xffffff, 0x1000000, 0xfffffe, 0x1000001, 0xffffffff):
            for fl in (0, 1, 0x80, 0xff):
                c = (gen.cfg_sr if kind == "sr" else gen.cfg_rr)(r); c["padding"] = 0
                rb = gen.r_rb(r); rb["cl"] = cl; rb["fl"] = fl
                c["rbs"] = [rb]
                out.append(c)
    elif kind == "app":
        for p in pads_all:
            for dl in (0, 4, 8):
                out.append({"k": "app", "ssrc": gen.r_u32(r), "name": b"ABCD", "padding": p, "subtype": r.randint(0, 31), "data": gen.r_bytes(r, dl)})
        for st in range(0, 256 if full else 40):
            out.append({"k": "app", "ssrc": 1, "name": b"ab", "padding": 0, "subtype": st, "data": b""})
        for nl in range(0, 8):
            out.append({"k": "app", "ssrc": 1, "name": gen.r_ascii(r, nl), "padding": r.choice(pads_legal), "subtype": 0, "data": gen.r_bytes(r, 4)})
        for nm in ("a\0bc", "\0abc", "ab\0c", "\0\0\0z", "\0", "a\0", "\0\0\0\0", "\x01\x02\x03\x04", "a\0b"):
            out.append({"k": "app", "ssrc": 1, "name": nm.encode(), "padding": r.choice(pads_legal), "subtype": 0, "data": gen.r_bytes(r, 4)})
        for nm in ("é", "aé", "abé", "€", "a€", "\x7f\x7f\x7f\x7f", "abc\x80"):
            out.append({"k": "app", "ssrc": 1, "name": nm.encode(), "padding": 0, "subtype": 0, "data": b""})
        for dl in range(0, 70 if not full else 260):
            out.append({"k": "app", "ssrc": 2, "name": b"NAME", "padding": r.choice(pads_legal), "subtype": 1, "data": gen.r_bytes(r, dl)})
        for dl in (262128, 262132, 262136, 262140):
            for p in (0, 4, 8):
                out.append({"k": "app", "ssrc": 3, "name": b"BIG_", "padding": p, "subtype": 0, "data": bytes(dl), "_big": True})
    elif kind == "unknown":
        for ty in ([192, 207, 255, 0, 200, 204] if not full else range(0, 256, 3)):
            for ct in ((0, 31, 32, 33) if not full else range(0, 34)):
                for dl in ((0, 4, 8, 3, 5) if not full else range(0, 18)):
                    out.append({"k": "unknown", "type": ty, "data": gen.r_bytes(r, dl), "padding": r.choice(pads_legal), "count": ct})
        for p in pads_all:
            out.append({"k": "unknown", "type": 207, "data": gen.r_bytes(r, 4), "padding": p, "count": 1})
        for dl in (262136, 262140, 262144):
            for p in (0, 4):
                out.append({"k": "unknown", "type": 207, "data": bytes(dl), "padding": p, "count": 0, "_big": True})
    elif kind == "sdes":
        lens = range(0, 258) if full else list(range(0, 9)) + [253, 254, 255, 256]
        for vl in lens:
            for ssrc in ((0, 0xff, 0xffff, 0xffffff, 0xff000000, gen.r_u32(r)) if full else (r.choice([0, 0xff, 0xffff, 0xffffff, 0xff000000]),)):
                for p in ((0, 4, 252) if full else (r.choice([0, 4, 8]),)):
                    c = {"k": "sdes", "padding": p, "chunks": [
                        {"k": "chunk", "ssrc": gen.r_u32(r), "items": [{"type": 1, "value": gen.r_text(r, r.randint(0, 6))}]},
                        {"k": "chunk", "ssrc": ssrc, "items": [{"type": r.choice([1, 2, 7, 9]), "value": gen.r_text(r, vl)}]}]}
                    if r.random() < 0.5: c["chunks"].reverse()
                    out.append(c)
        # items of type 0 (the builder accepts them; on the wire the octet is the list terminator):
        # alone, first, in the middle, last, with and without a value
        for its in ([(0, b"x")], [(0, b"")], [(0, b"x"), (1, b"a")], [(1, b"a"), (0, b"zz"), (2, b"n")], [(1, b"a"), (0, b"")],
                    [(0, b""), (1, b"a")], [(8, b"v"), (0, b"abc"), (0, b"d")]):
            out.append({"k": "sdes", "padding": r.choice([0, 4]), "_keep": True, "chunks": [
                {"k": "chunk", "ssrc": gen.r_u32(r), "items": [{"type": t, "value": v} for t, v in its]}]})
        # every standard item type with texts whose ends a well-meaning constructor might touch,
        # added through both adders
        for txt in SPECIAL_TEXTS:
            for ty in ((1, 2, 3, 4, 5, 6, 7, 8) if full else (1, r.choice([2, 3, 4, 5, 6, 7]), 8)):
                it = {"type": ty, "value": txt.encode()}
                if ty == 8: it["prefix"] = r.choice([b"", b"x", txt.encode()[:3]])
                out.append({"k": "sdes", "padding": r.choice([0, 4]), "_keep": True, "chunks": [
                    {"k": "chunk", "ssrc": gen.r_u32(r), "items": [it, {"type": 2, "value": b"n"}][:r.choice([1, 2])]}]})
        for pl in (range(0, 257) if full else list(range(0, 6)) + [252, 253, 254, 255, 256]):
            for vl in ((0, 1, 2, 3, 254 - pl, 255 - pl) if full else (0, 1, 254 - pl, 255 - pl)):
                if vl < 0: continue
                out.append({"k": "sdes", "padding": r.choice(pads_legal), "chunks": [
                    {"k": "chunk", "ssrc": gen.r_u32(r), "items": [{"type": 8, "value": gen.r_text(r, vl), "prefix": gen.r_bytes(r, pl)}]}]})
        for pl, vl in ((0, 255), (0, 256), (0, 257), (1, 254), (1, 256), (10, 300), (2, 512), (256, 0), (300, 1), (254, 1), (254, 256)):
            out.append({"k": "sdes", "padding": r.choice(pads_legal), "chunks": [
                {"k": "chunk", "ssrc": gen.r_u32(r), "items": [{"type": 8, "value": gen.r_text(r, vl), "prefix": gen.r_bytes(r, pl)}]}]})
        for vl in (256, 257, 300, 512):
            out.append({"k": "sdes", "padding": 0, "chunks": [{"k": "chunk", "ssrc": 5, "items": [{"type": 1, "value": gen.r_text(r, vl)}]}]})
        # a prefix on an item that is not PRIV has no effect (every length that moves a word boundary)
        for pl in range(1, 9):
            out.append({"k": "sdes", "padding": r.choice([0, 4]), "_keep": True, "chunks": [{"k": "chunk", "ssrc": 5, "items": [
                {"type": r.choice([1, 2, 7, 255]), "value": gen.r_text(r, r.randint(0, 3)), "prefix": gen.r_bytes(r, pl)}]}]})
        for nc in range(0, 34):
            out.append({"k": "sdes", "padding": 0, "chunks": [{"k": "chunk", "ssrc": i * 0x01000001 & 0xffffffff, "items": [{"type": 1, "value": b"a" * (i % 5)}] if i % 3 else []} for i in range(nc)]})
        for p in pads_all:
            out.append({"k": "sdes", "padding": p, "chunks": [{"k": "chunk", "ssrc": 0, "items": [{"type": 1, "value": b"x"}]}]})
        # last item 0..3 bytes from the end, with an empty final item
        for vl in range(0, 8):
            out.append({"k": "sdes", "padding": 0, "chunks": [{"k": "chunk", "ssrc": 9, "items": [{"type": 1, "value": b"v" * vl}, {"type": 2, "value": b""}]}]})
        # several chunks, each far below the limit, together above it
        half = [{"type": 1, "value": b"h" * 255} for _ in range(510)]
        for extra in (0, 1, 2, 3, 4, 5, 6, 60):
            for p_ in (0, 4):
                out.append({"k": "sdes", "padding": p_, "_size_only": True, "_big": True, "chunks": [
                    {"k": "chunk", "ssrc": 1, "items": list(half)}, {"k": "chunk", "ssrc": 2, "items": half + [{"type": 1, "value": b"e" * 250} for _ in range(extra)]}]})
        # exactly 65535, 65536 and 65537 words, with and without padding, really written and parsed back
        # (1019 items of 255 octets and one item that decides the total)
        base_items = [{"type": 1, "value": b"z" * 255} for _ in range(1019)]
        for total, p_ in ((262140, 0), (262144, 0), (262148, 0), (262144, 4), (262148, 4), (262140, 8)):
            e = total - p_ - 261891 - 3
            if 0 <= e <= 255:
                out.append({"k": "sdes", "padding": p_, "_big": True, "_light": True, "chunks": [
                    {"k": "chunk", "ssrc": 1, "items": base_items + [{"type": 2, "value": b"y" * e}]}]})
        # one chunk of 65535 / 65536 / 65537 ITEMS (a packet may hold 131069 empty items: nothing in the
        # format counts them, so nothing may count them in 16 bits), really written and parsed back
        for n_items in (65535, 65536, 65537):
            out.append({"k": "sdes", "padding": 0, "_big": True, "_light": True, "_many_items": True, "chunks": [
                {"k": "chunk", "ssrc": 7, "items": [{"type": 1 + i % 7, "value": b""} for i in range(n_items)]}]})
        # total size around the limit: 1028 items of 255 bytes = 264196
        big_items = [{"type": 1, "value": b"z" * 255} for _ in range(1019)]
        for extra in (0, 145, 146, 147, 148, 149, 150, 151, 152, 153, 200):
            out.append({"k": "sdes", "padding": 0, "chunks": [{"k": "chunk", "ssrc": 1, "items": big_items + [{"type": 1, "value": b"y" * extra}]}], "_size_only": True, "_big": True})
    elif kind == "fb":
        for p in pads_all:
            for fk in ("nack", "pli", "rpsi", "sli", "fir"):
                c = gen.cfg_fb(r, fci_kind=fk, allow_wrong=False); c["padding"] = p
                while gen.violations(c["fci"]): c["fci"] = gen.r_fci(r, fk)
                out.append(c)
        for fk in ("nack", "pli", "rpsi", "sli", "fir"):
            for k in ("tfb", "pfb"):
                c = gen.cfg_fb(r, k=k, fci_kind=fk)
                out.append(c)
        for n in range(0, 41):
            for ov in range(0, 10):
                if not full and r.random() < 0.5: continue
                out.append({"k": "pfb", "mode": "borrowed", "fci": {"k": "rpsi", "pt": r.choice([0, 96, 127]), "data": gen.r_bytes(r, n), "overrun": ov},
                            "padding": r.choice(pads_legal), "sender": gen.r_u32(r), "media": gen.r_u32(r)})
        for n_ in range(0, 13):
            for ov in range(0, 9):
                out.append({"k": "pfb", "mode": "owned", "_rpsi_sweep": True, "fci": {"k": "rpsi", "pt": 96, "data": bytes([0xff]) * n_, "overrun": ov},
                            "padding": 0, "sender": 1, "media": 2})
        for pt in (126, 127, 128, 129, 255):
            out.append({"k": "pfb", "mode": "owned", "fci": {"k": "rpsi", "pt": pt, "data": b"\xff\xff", "overrun": 1}, "padding": 0, "sender": 1, "media": 2})
        # NACK insertion orders: small sets inside a 40-wide window, every permutation of the adds
        import itertools as _it
        for base in (100, 65500):
            for offs in ((0, 10, -10, 25), (0, -10, 7), (0, 17, 5, 30), (0, 16, 32, 8), (3, 1, 2, 0, 20), (0, 33, 17, 16)):
                for perm in list(_it.permutations(offs))[:24]:
                    out.append({"k": "tfb", "mode": "borrowed", "fci": {"k": "nack", "seqs": [(base + o) % 65536 for o in perm]},
                                "padding": r.choice([0, 4]), "sender": 1, "media": 2})
        for pid in (0xffee, 0xffef, 0xfff0, 0xfffd, 0xfffe, 0xffff):
            for extra in ([], [0xffff], [0xffff, 0], [0xffff, 0, 1]):
                out.append({"k": "tfb", "mode": "owned", "fci": {"k": "nack", "seqs": [pid] + extra}, "padding": 0, "sender": 1, "media": 2})
        for ents in ([(0, 0)], [(0, 0), (1, 1)], [(1, 1), (0, 0), (2, 2)], [(5, 0), (0, 5)], [(0, 0), (0, 1)]):
            for p_ in (0, 4):
                out.append({"k": "pfb", "mode": "borrowed", "fci": {"k": "fir", "entries": ents}, "padding": p_, "sender": 1, "media": 2})
        # NACK shapes
        for base in (0, 1, 65519, 65520, 65534, 65535, 1000):
            for gap in (1, 15, 16, 17, 18):
                seqs = [(base + i * gap) % 65536 for i in range(6)]
                out.append({"k": "tfb", "mode": "borrowed", "fci": {"k": "nack", "seqs": seqs}, "padding": r.choice(pads_legal), "sender": 1, "media": 2})
        out.append({"k": "tfb", "mode": "owned", "fci": {"k": "nack", "seqs": list(range(0, 65536, 1 if full else 5))}, "padding": 0, "sender": 1, "media": 2, "_size_only": True, "_big": True})
        out.append({"k": "tfb", "mode": "owned", "fci": {"k": "nack", "seqs": list(range(0, 3000, 2)) + list(range(65000, 65536))}, "padding": 4, "sender": 1, "media": 2, "_big": True})
        # every sequence number, all but one, all but two (3856 / 3855 words), inserted in descending order
        for drop in ((), (0, 65535)):
            out.append({"k": "tfb", "mode": r.choice(["owned", "borrowed"]), "fci": {"k": "nack", "seqs": [x for x in range(65535, -1, -1) if x not in drop]},
                        "padding": r.choice([0, 4]), "sender": 1, "media": 2, "_big": True, "_light": True})
        out.append({"k": "tfb", "mode": "owned", "fci": {"k": "nack", "seqs": list(range(65535, -1, -17))}, "padding": 0, "sender": 1, "media": 2, "_big": True, "_light": True})
        # FIR count limits
        for nf in ((32765, 32766, 32767) if full else (32766, 32767)):
            for p in ((0, 4, 8) if full else (0, 8)):
                out.append({"k": "pfb", "mode": "owned", "fci": {"k": "fir", "entries": [(i, i & 0xff) for i in range(nf)]}, "padding": p, "sender": 1, "media": 2, "_size_only": True, "_big": True})
        # SLI size limit: 65533 entries = 262144 bytes
        for ns in (65532, 65533, 65534):
            for p in (0, 4):
                out.append({"k": "pfb", "mode": "owned", "fci": {"k": "sli", "entries": [(i & 0x1fff, 1, i & 63) for i in range(ns)]}, "padding": p, "sender": 1, "media": 2, "_size_only": True, "_big": True})
        for dl in (262122, 262126, 262127, 262130, 262131):
            out.append({"k": "pfb", "mode": "owned", "fci": {"k": "rpsi", "pt": 1, "data": bytes(dl), "overrun": 0}, "padding": 0, "sender": 1, "media": 2, "_size_only": True, "_big": True})
    elif kind == "custom":
        for pt in gen.CUSTOM_PTS:
            for mn in gen.CUSTOM_MINS:
                for bl in (0, 4, 8, 16, 20, 3):
                    out.append({"k": "custom", "pt": pt, "min": mn, "body": gen.r_bytes(r, bl), "padding": r.choice(pads_legal + [2])})
        for p in pads_all:
            out.append({"k": "custom", "pt": 242, "min": 12, "body": gen.r_bytes(r, 8), "padding": p})
    elif kind == "item":
        for vl in (range(0, 258) if full else list(range(0, 6)) + [254, 255, 256]):
            out.append({"k": "item", "type": r.choice([1, 7, 200]), "value": gen.r_text(r, vl)})
        for pl in (range(0, 258) if full else [0, 1, 2, 253, 254, 255, 256]):
            for vl in (0, 1, max(0, 254 - pl), max(0, 255 - pl)):
                out.append({"k": "item", "type": 8, "value": gen.r_text(r, vl), "prefix": gen.r_bytes(r, pl)})
        # lengths whose low byte is small: a length octet computed modulo 256 would look legal
        for pl in (0, 1, 10, 100, 254, 255, 256, 300, 510, 511, 512):
            for vl in (0, 1, 255, 256, 257, 300, 510, 511, 512, 513):
                if pl + vl > 254:
                    out.append({"k": "item", "type": 8, "value": gen.r_text(r, vl), "prefix": gen.r_bytes(r, pl)})
        for vl in (256, 257, 258, 300, 511, 512, 513, 768):
            out.append({"k": "item", "type": r.choice([1, 2, 7, 255]), "value": gen.r_text(r, vl)})
    elif kind == "chunk":
        for vl in range(0, 12):
            out.append({"k": "chunk", "ssrc": gen.r_u32(r), "items": [{"type": 1, "value": gen.r_text(r, vl)}]})
        out.append({"k": "chunk", "ssrc": 0, "items": []})
    elif kind == "fci":
        for fk in ("nack", "fir", "sli", "rpsi", "pli"):
            for _ in range(20):
                out.append(gen.r_fci(r, fk))
    elif kind == "compound":
        for extra in (0, 4, 8, 65536):
            half = {"k": "unknown", "type": 207, "data": bytes(131060), "padding": 0, "count": 0}
            out.append({"k": "compound", "_big": True, "members": [
                {"k": "rr", "ssrc": 1, "padding": 0, "rbs": []}, dict(half), dict(half),
                {"k": "unknown", "type": 192, "data": bytes(extra), "padding": 0, "count": 1},
                {"k": "bye", "padding": 0, "sources": [7], "reason": None}]})
        # a NESTED compound around and beyond 65536 words: the 16-bit length field limits a packet,
        # a compound (nested or not) is a concatenation of packets and has no limit of its own
        for extra in (131052, 131056, 131060, 200000):
            big = {"k": "unknown", "type": 207, "data": bytes(extra), "padding": 0, "count": 0}
            half = {"k": "unknown", "type": 207, "data": bytes(131060), "padding": 0, "count": 0}
            inner = {"k": "compound", "members": [dict(half), dict(big), {"k": "bye", "padding": 0, "sources": [7], "reason": None}]}
            out.append({"k": "compound", "_big": True, "members": [{"k": "rr", "ssrc": 1, "padding": 0, "rbs": []}, inner]})
            out.append({"k": "compound", "_big": True, "members": [inner, {"k": "rr", "ssrc": 1, "padding": 4, "rbs": []}]})
        # long member lists: padding on a member at every position around 64
        for n in (63, 64, 65, 66, 67, 70, 130):
            for padpos in sorted({n - 1, 62, 63, 64, 65, n - 2} & set(range(n))):
                ms = [{"k": "rr", "ssrc": i, "padding": 4 if i == padpos else 0, "rbs": []} for i in range(n)]
                out.append({"k": "compound", "members": ms})
        out.append({"k": "compound", "members": []})
        out.append({"k": "compound", "members": [{"k": "compound", "members": []}]})
        # a setting that has no effect on a packet must have none on the compound that holds it: an
        # SDES item that is not PRIV with a prefix set (ignored by the size and by the writer), the
        # SDES builder handed to the compound directly, alone / first / last
        for pl in (1, 2, 3, 4, 8):
            def sd():
                return {"k": "sdes", "padding": 0, "chunks": [{"k": "chunk", "ssrc": 5, "items": [
                    {"type": r.choice([1, 2, 7]), "value": b"ab", "prefix": bytes(range(1, pl + 1))}]}]}
            rr_ = {"k": "rr", "ssrc": 1, "padding": 0, "rbs": []}
            bye_ = {"k": "bye", "padding": 0, "sources": [7], "reason": None}
            out.append({"k": "compound", "_keep": True, "members": [sd()]})
            out.append({"k": "compound", "_keep": True, "members": [dict(rr_), sd()]})
            out.append({"k": "compound", "_keep": True, "members": [sd(), dict(bye_)]})
        # valid nestings of several packets (the random compounds are rarely valid at depth)
        def vm():
            c = gen.legalize(r, wf_cfg_for(r.choice(["rr", "sr", "bye", "app", "sdes", "tfb", "pfb", "unknown"]), r))
            return c
        for shape in ("[[ab]]", "[a[bc]]", "[[ab]c]", "[[ab][cd]]", "[a[b[cd]]]", "[[a][b]]", "[[[ab]]]", "[a[bc]d]", "[[abc]]"):
            def build(it):
                ms = []
                for ch in it:
                    if ch == "[": ms.append({"k": "compound", "members": build(it)})
                    elif ch == "]": return ms
                    else: ms.append(vm())
                return ms
            top = build(iter(shape[1:]))
            for _ in range(2 if not full else 6):
                c = {"k": "compound", "_keep": True, "members": [dict(x) for x in top]}
                if r.random() < 0.5:
                    # padding only on the very last packet
                    last = c["members"][-1]
                    while last["k"] == "compound" and last["members"]: last = last["members"][-1]
                    if last["k"] != "compound": last["padding"] = r.choice([4, 8])
                out.append(c)
                top = build(iter(shape[1:]))
        # third-party writers whose image is not a whole number of words, in non-last positions (the
        # compound is their concatenation all the same; it is the caller's business what it means)
        CU = lambda mn, bl, pt=242: {"k": "custom", "pt": pt, "min": mn, "body": gen.r_bytes(r, bl), "padding": 0}
        RR0 = lambda: {"k": "rr", "ssrc": gen.r_u32(r), "padding": 0, "rbs": []}
        for ms in ([CU(13, 4), RR0()], [RR0(), CU(6, 0), {"k": "bye", "padding": 0, "sources": [5], "reason": None}], [CU(13, 8), CU(6, 1), RR0()],
                   [CU(4, 1), RR0()], [CU(4, 2), CU(4, 3), RR0()], [RR0(), CU(13, 0)], [{"k": "compound", "members": [CU(6, 0), RR0()]}, RR0()]):
            out.append({"k": "compound", "_keep": True, "members": ms})
        U = lambda pt=242: {"k": "custom", "unit": True, "pt": pt, "min": 8, "body": bytes(4), "padding": 0}
        for ms in ([U(), U()], [U(), {"k": "rr", "ssrc": 1, "padding": 0, "rbs": []}, U(), U()], [U(208), U(242), U(208)], [U()],
                   [U(), U(), {"k": "bye", "padding": 4, "sources": [1], "reason": None}]):
            out.append({"k": "compound", "members": ms})
        E = lambda: {"k": "compound", "members": []}
        PB = lambda p: {"k": "bye", "padding": p, "sources": [1], "reason": None}
        RR = lambda: {"k": "rr", "ssrc": 2, "padding": 0, "rbs": []}
        for ms in ([PB(4), E()], [PB(4), E(), E()], [RR(), PB(8), E()], [{"k": "compound", "members": [PB(4), E()]}, RR()],
                   [E(), PB(4)], [E(), PB(4), RR()], [PB(4), {"k": "compound", "members": [E()]}], [PB(0), E(), RR()],
                   [{"k": "compound", "members": [RR(), PB(4)]}, E()], [{"k": "compound", "members": [RR(), PB(4)]}, E(), RR()]):
            out.append({"k": "compound", "members": ms})
        out.append({"k": "compound", "members": [gen.cfg_rr(r) | {"padding": 0, "rbs": []}, {"k": "compound", "members": []}]})
        for pos in range(3):
            ms = [{"k": "rr", "ssrc": i, "padding": 4 if i == pos else 0, "rbs": []} for i in range(3)]
            out.append({"k": "compound", "members": ms})
        out.append({"k": "compound", "members": [{"k": "rr", "ssrc": 1, "padding": 0, "rbs": []},
                                                  {"k": "compound", "members": [{"k": "bye", "padding": 4, "sources": [1], "reason": None}]},
                                                  {"k": "rr", "ssrc": 2, "padding": 0, "rbs": []}]})
        out.append({"k": "compound", "members": [{"k": "rr", "ssrc": 1, "padding": 0, "rbs": []},
                                                  {"k": "compound", "members": [{"k": "bye", "padding": 4, "sources": [1], "reason": None}]}]})
    return out
