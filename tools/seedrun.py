#!/usr/bin/env python3
"""Confirm a seeded change and run the checks against it.

  seedrun.py collect <worktree> <name> <property>   copy patch/demo out of a sub-agent's worktree,
                                                     confirm it in a fresh scratch worktree
                                                     (compiles, 94 tests pass, demo fails with /
                                                     passes without), write /verif/seeded/<name>/
  seedrun.py run <name> [Cnn ...]                   apply /verif/seeded/<name>/patch.diff to /repo,
                                                     run the quick checks (all 20 by default) in
                                                     parallel, undo the patch, record who alarmed
"""
import concurrent.futures as cf
import json
import os
import re
import shutil
import subprocess
import sys
import time

VERIF = os.path.dirname(os.path.dirname(os.path.abspath(__file__)))
SEEDED = os.path.join(VERIF, "seeded")
ENV = dict(os.environ, CARGO_NET_OFFLINE="true")
ALL = [f"C{n:02d}" for n in range(1, 21)]


def sh(cmd, cwd=None, timeout=1800):
    p = subprocess.run(cmd, cwd=cwd, shell=isinstance(cmd, str), env=ENV, stdout=subprocess.PIPE, stderr=subprocess.STDOUT, text=True, timeout=timeout)
    return p.returncode, p.stdout


def test_summary(out):
    ok = sum(int(m.group(1)) for m in re.finditer(r"test result: \w+\. (\d+) passed", out))
    bad = sum(int(m.group(1)) for m in re.finditer(r"test result: \w+\. \d+ passed; (\d+) failed", out))
    return ok, bad


def collect(wt, name, prop):
    d = os.path.join(SEEDED, name)
    os.makedirs(d, exist_ok=True)
    rc, patch = sh(["git", "-C", wt, "diff", "--", "src"])
    if not patch.strip():
        print("no source change in", wt); return 1
    open(os.path.join(d, "patch.diff"), "w").write(patch)
    demo = os.path.join(wt, "tests", "seeded_demo.rs")
    if not os.path.exists(demo):
        print("no demo in", wt); return 1
    shutil.copy(demo, os.path.join(d, "seeded_demo.rs"))
    if os.path.exists(os.path.join(wt, "SEEDED.md")):
        shutil.copy(os.path.join(wt, "SEEDED.md"), os.path.join(d, "SEEDED.md"))
    # confirm in a fresh worktree
    scratch = f"/tmp/mutv/{name}"
    sh(["git", "-C", "/repo", "worktree", "remove", "--force", scratch])
    shutil.rmtree(scratch, ignore_errors=True)
    os.makedirs("/tmp/mutv", exist_ok=True)
    rc, out = sh(["git", "-C", "/repo", "worktree", "add", "--detach", scratch, "HEAD"])
    if rc: print(out); return 1
    res = {}
    try:
        rc, out = sh(["git", "apply", os.path.join(d, "patch.diff")], cwd=scratch)
        res["applies"] = rc == 0
        rc, out = sh("cargo test --workspace --offline --no-fail-fast", cwd=scratch)
        ok, bad = test_summary(out)
        res["suite_with_change"] = {"rc": rc, "passed": ok, "failed": bad}
        shutil.copy(os.path.join(d, "seeded_demo.rs"), os.path.join(scratch, "tests", "seeded_demo.rs"))
        rc, out = sh("cargo test --offline --test seeded_demo", cwd=scratch)
        res["demo_with_change"] = {"rc": rc, "tail": out[-600:]}
        sh(["git", "checkout", "--", "src"], cwd=scratch)
        rc, out = sh("cargo test --offline --test seeded_demo", cwd=scratch)
        res["demo_without_change"] = {"rc": rc, "tail": out[-300:]}
    finally:
        sh(["git", "-C", "/repo", "worktree", "remove", "--force", scratch])
        shutil.rmtree(scratch, ignore_errors=True)
    confirmed = (res.get("applies") and res["suite_with_change"]["rc"] == 0 and res["suite_with_change"]["passed"] >= 94
                 and res["demo_with_change"]["rc"] != 0 and res["demo_without_change"]["rc"] == 0)
    meta = {"name": name, "breaks_property": prop, "confirmed": bool(confirmed), "confirmation": res,
            "ran": ["git apply patch.diff (fresh worktree of /repo HEAD)", "cargo test --workspace --offline --no-fail-fast",
                    "cargo test --offline --test seeded_demo (with the change: must fail)",
                    "git checkout -- src; cargo test --offline --test seeded_demo (without: must pass)"]}
    mp = os.path.join(d, "meta.json")
    if os.path.exists(mp):
        old = json.load(open(mp)); old.update(meta); meta = old
    json.dump(meta, open(mp, "w"), indent=1)
    print(name, "confirmed" if confirmed else "NOT CONFIRMED", json.dumps({k: (v if not isinstance(v, dict) else {a: b for a, b in v.items() if a != 'tail'}) for k, v in res.items()}))
    return 0 if confirmed else 1


def run(name, pids):
    d = os.path.join(SEEDED, name)
    patch = os.path.join(d, "patch.diff")
    rc, out = sh(["git", "-C", "/repo", "status", "--porcelain"])
    if out.strip():
        print("/repo is not clean:", out); return 2
    rc, out = sh(["git", "-C", "/repo", "apply", patch])
    if rc: print("patch does not apply:", out); return 2
    results = {}
    t0 = time.time()
    try:
        # build once, then the checks in parallel
        rc, out = sh("cargo build --offline --release", cwd=os.path.join(VERIF, "harness"))
        if rc:
            print("harness does not build against the change:\n", out[-2000:])
            results = {p: {"rc": 2, "lines": ["harness build failed"]} for p in pids}
        else:
            def one(p):
                rc, out = sh([os.path.join(VERIF, "check"), p, "--tier", "quick"], cwd=VERIF)
                lines = [l for l in out.split("\n") if l.startswith(("VIOLATION", "  violated", "KNOWN-FINDING", "ERROR"))]
                return p, {"rc": rc, "lines": [l[:300] for l in lines[:6]]}
            with cf.ThreadPoolExecutor(max_workers=10) as ex:
                for p, r in ex.map(one, pids):
                    results[p] = r
    finally:
        sh(["git", "-C", "/repo", "checkout", "--", "."])
    caught = sorted(p for p, r in results.items() if r["rc"] == 1)
    mp = os.path.join(d, "meta.json")
    meta = json.load(open(mp)) if os.path.exists(mp) else {"name": name}
    meta["checks_run"] = {"commit": sh(["git", "-C", VERIF, "rev-parse", "--short", "HEAD"])[1].strip(),
                          "caught_by": caught, "wall_s": round(time.time() - t0, 1),
                          "detail": {p: r for p, r in results.items() if r["rc"] != 0}}
    json.dump(meta, open(mp, "w"), indent=1)
    print(name, "caught by", caught or "NOTHING")
    for p in caught:
        for l in results[p]["lines"][:3]: print("   ", p, l[:200])
    return 0


if __name__ == "__main__":
    if sys.argv[1] == "collect":
        sys.exit(collect(sys.argv[2], sys.argv[3], sys.argv[4]))
    if sys.argv[1] == "run":
        sys.exit(run(sys.argv[2], sys.argv[3:] or ALL))
