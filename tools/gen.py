"""Seeded generators: builder configurations (rendered as API call sequences), reference wire
encoders used to produce well-formed inputs, damage operators, and the exhaustive small-scope
streams.  Every random choice derives from the one `random.Random` passed in."""
import itertools
import re
import struct

from common import hexb

U32_CORNERS = [0, 1, 0xff, 0x100, 0xffff, 0x10000, 0xffffff, 0x1000000, 0x7fffffff, 0x80000000,
               0xfffffffe, 0xffffffff, 0x00223344, 0x000000ff, 0x0000ffff, 0xff000000]


def harvest(root=None):
    """integer literals and byte-array literals of the crate's non-test source: values the code
    compares against are values worth feeding it (a 32-bit magic constant is never hit by chance)"""
    import os, re
    root = root or os.path.join(os.environ.get("RTCP_REPO", "/repo"), "src")
    ints, seqs = set(), set()
    for dp, _, fs in os.walk(root):
        for f in fs:
            if not f.endswith(".rs"): continue
            t = open(os.path.join(dp, f), errors="replace").read()
            cut = t.find("#[cfg(test)]")
            if cut >= 0: t = t[:cut]
            t = re.sub(r"//[^\n]*", "", t)
            for m in re.finditer(r"\b0x([0-9a-fA-F_]+)|\b(\d[\d_]*)\b", t):
                try:
                    v = int(m.group(1).replace("_", ""), 16) if m.group(1) else int(m.group(2).replace("_", ""))
                except ValueError:
                    continue
                if v < 1 << 64: ints.add(v)
            for m in re.finditer(r"\[((?:\s*(?:0x[0-9a-fA-F]{1,2}|\d{1,3})\s*,){1,15}\s*(?:0x[0-9a-fA-F]{1,2}|\d{1,3})\s*,?\s*)\]", t):
                try:
                    bs = bytes(int(x, 0) for x in m.group(1).replace(" ", "").replace("\n", "").split(",") if x)
                    if 2 <= len(bs) <= 16: seqs.add(bs)
                except ValueError:
                    pass
    for bs in list(seqs):
        if len(bs) == 4: ints.add(int.from_bytes(bs, "big")); ints.add(int.from_bytes(bs, "little"))
        if len(bs) == 2: ints.add(int.from_bytes(bs, "big"))
    return sorted(ints), sorted(seqs)


try:
    DICT_INTS, DICT_SEQS = harvest()
except OSError:
    DICT_INTS, DICT_SEQS = [], []
DICT_U32 = [v for v in DICT_INTS if 255 < v < 1 << 32] or [0]


def r_u32(r):
    x = r.random()
    if x < 0.08: return r.choice(DICT_U32)
    return r.choice(U32_CORNERS) if x < 0.5 else r.getrandbits(32)


DICT_U64 = sorted({v for v in DICT_INTS if v >= 1 << 32} | {(v << 32) & 0xffffffffffffffff for v in DICT_U32} | set(DICT_U32))
# well-known instants in the 32.32 NTP format (the Unix epoch, the start of NTP era 1 minus one, 2036)
NTP_SPECIAL = [0x83AA7E8000000000, 0x83AA7E80FFFFFFFF, 0x83AA7E7FFFFFFFFF, 0xFFFFFFFF00000000, 0xFFFFFFFFFFFFFFFE, 0x7FFFFFFFFFFFFFFF,
               0x0000000100000000, 0xBC17C20000000000, 0xE000000000000000]


def r_u64(r):
    c = [0, 1, 0xffffffff, 0x100000000, 0xffffffffffffffff, 0x8000000000000000, 0x0102030405060708]
    x = r.random()
    if x < 0.1 and DICT_U64: return r.choice(DICT_U64)
    if x < 0.2: return r.choice(NTP_SPECIAL)
    return r.choice(c) if x < 0.5 else r.getrandbits(64)


def r_u16(r):
    c = [0, 1, 15, 16, 17, 18, 0xff, 0x100, 0x7fff, 0x8000, 0xffef, 0xfff0, 0xfffe, 0xffff]
    return r.choice(c) if r.random() < 0.4 else r.getrandbits(16)


def r_u8(r):
    c = [0, 1, 31, 32, 127, 128, 254, 255]
    return r.choice(c) if r.random() < 0.4 else r.getrandbits(8)


def r_padding(r, legal_only=False):
    x = r.random()
    if x < 0.35:
        return 0
    if x < 0.85 or legal_only:
        return r.choice([4, 8, 12, 16, 252, 4 * r.randint(1, 63)])
    return r.choice([1, 2, 3, 5, 6, 7, 255, 253, r.randint(1, 255)])


SPECIAL_HEADS = ["\ufeff", "\ufeff", "\ufeff", "\U0001f600", " ", "\t", "@", "\u00a0", "\u200b", "\ufffd", "\u0000", "\ufeff\ufeff", "\r\n"]
SPECIAL_TAILS = ["\ufeff", "\U0001f600", " ", "\n", "\r", "\r\n", "\n", "\t", "@", "\u0000", ".", "\u200b", "/", "\\"]


def r_text(r, n):
    """n bytes of valid UTF-8 (sometimes with NUL octets, sometimes ending in one, sometimes
    starting or ending with a character a well-meaning setter might strip: BOM, blank, non-BMP)"""
    out = bytearray(_r_text(r, n))
    x = r.random()
    if x < 0.12:
        h = r.choice(SPECIAL_HEADS).encode()
        if len(h) <= n: out = bytearray(h + _r_text(r, n - len(h)))
    elif x < 0.17:
        t = r.choice(SPECIAL_TAILS).encode()
        if len(t) <= n: out = bytearray(_r_text(r, n - len(t)) + t)
    if len(out) != n: out = bytearray(_r_text(r, n))
    if n and out[-1] < 0x80 and r.random() < 0.12:
        out[-1] = 0
    if n > 2 and r.random() < 0.05:
        i = r.randrange(n)
        if out[i] < 0x80: out[i] = 0
    return bytes(out)


def _r_text(r, n):
    out = bytearray()
    while len(out) < n:
        left = n - len(out)
        x = r.random()
        if left >= 3 and x < 0.05:
            out += "€".encode()
        elif left >= 2 and x < 0.12:
            out += "é".encode()
        else:
            out.append(r.choice(b"abcdefghijklmnopqrstuvwxyzABCXYZ0189 .-_@"))
    return bytes(out)


def r_bytes(r, n):
    x = r.random()
    if x < 0.15:
        return bytes(n)
    if x < 0.3:
        return bytes([0xff]) * n
    return bytes(r.getrandbits(8) for _ in range(n))


# --------------------------------------------------------------------------------------------
# s-expression rendering

def B(b):
    """BYTES"""
    if len(b) > 64 and len(set(b)) == 1:
        return f"(rep {b[0]:02x} {len(b)})"
    return hexb(b)


def render_rb(rb, order=None, r=None, style="canon"):
    calls = [("fl", rb["fl"]), ("cl", rb["cl"]), ("esn", rb["esn"]), ("jit", rb["jit"]),
             ("lsr", rb["lsr"]), ("dlsr", rb["dlsr"])]
    if order:
        calls = order(calls)
    if r is not None and style in ("shuffle", "repeat", "probe"):
        r.shuffle(calls)
        if style == "repeat":
            # every setter preceded, somewhere earlier, by the same setter with another value
            decoys = [(k, r.choice([0, 1, 0xffffff, 0x1000000, 0xffffffff, r.getrandbits(32)]) if k != "fl" else r.getrandbits(8)) for k, _ in calls]
            r.shuffle(decoys)
            merged = []
            pending = list(calls)
            for d in decoys:
                merged.append(d)
                # the real call of this setter may come any time after its decoy
            # interleave: decoy of k must precede the real call of k
            out = []
            real = {k: v for k, v in calls}
            order_ = [("d", k, v) for k, v in decoys] + [("r", k, real[k]) for k, _ in calls]
            r.shuffle(order_)
            seen = set()
            late = []
            for kind, k, v in order_:
                if kind == "d": out.append((k, v)); seen.add(k)
                elif k in seen: out.append((k, v))
                else: late.append((k, v))
            # real calls that came before their decoy go last (after the decoy)
            calls = out + late
    return "(rb %d%s)" % (rb["ssrc"], "".join(f" ({k} {v})" for k, v in calls))


def render_item(it, owned=False):
    s = f"(item {it['type']} {B(it['value'])}"
    if it.get("prefix") is not None:
        s += f" (prefix {B(it['prefix'])})"
    if owned:
        s += " (into_owned)"
    return s + ")"


def render_chunk(ch, owned_items=()):
    s = f"(chunk {ch['ssrc']}"
    for i, it in enumerate(ch["items"]):
        if i in owned_items:
            s += f" (add_item_owned {render_item(it)})"
        else:
            s += f" (add_item {render_item(it)})"
    return s + ")"


def with_probes(calls, r, p=0.4):
    """the same calls with `(probe)` (a size query / scratch write on the builder as configured so
    far, a no-op for the final configuration) inserted at random positions"""
    if r is None: return list(calls)
    out = []
    for c in calls:
        if r.random() < p: out.append("(probe)")
        out.append(c)
    if r.random() < p: out.append("(probe)")
    return out


def render_fci(f, owned=False, r=None, probe=False):
    k = f["k"]
    P = (lambda cs: with_probes(cs, r)) if probe else (lambda cs: cs)
    if k == "nack":
        return "(nack%s)" % "".join(" " + c for c in P([f"(add {s})" for s in f["seqs"]]))
    if k == "fir":
        return "(fir%s)" % "".join(" " + c for c in P([f"(add {s} {q})" for s, q in f["entries"]]))
    if k == "sli":
        return "(sli%s)" % "".join(" " + c for c in P([f"(add {a} {b} {c})" for a, b, c in f["entries"]]))
    if k == "rpsi":
        s = "(rpsi"
        calls = []
        if "pt" in f:
            calls.append(f"(payload_type {f['pt']})")
        if "data" in f:
            nm = "native_data_owned" if owned else ("native_data_vec" if (probe or f.get("vec")) and (r is None or r.random() < 0.5) else "native_data")
            calls.append(f"({nm} {B(f['data'])} {f['overrun']})")
        return s + "".join(" " + c for c in P(calls)) + ")"
    if k == "pli":
        return "(pli)"
    raise ValueError(k)


def setter_calls(cfg):
    """list of (name, rendered call) for the scalar setters of a packet builder, canonical order"""
    k = cfg["k"]
    c = []
    if k == "app":
        if "padding" in cfg: c.append(("padding", f"(padding {cfg['padding']})"))
        if "subtype" in cfg: c.append(("subtype", f"(subtype {cfg['subtype']})"))
        if "data" in cfg: c.append(("data", f"(data {B(cfg['data'])})"))
    elif k == "sr":
        if "padding" in cfg: c.append(("padding", f"(padding {cfg['padding']})"))
        for nm, key in (("ntp", "ntp"), ("rtp", "rtp"), ("packet_count", "pc"), ("octet_count", "oc")):
            if key in cfg: c.append((nm, f"({nm} {cfg[key]})"))
    elif k in ("rr", "sdes", "bye", "custom"):
        if "padding" in cfg: c.append(("padding", f"(padding {cfg['padding']})"))
        if k == "custom" and cfg.get("some0"): c.append(("pad_style", "(pad_style some0)"))
        if k == "custom" and "count" in cfg: c.append(("count", f"(count {cfg['count']})"))
    elif k == "unknown":
        if "padding" in cfg: c.append(("padding", f"(padding {cfg['padding']})"))
        if "count" in cfg: c.append(("count", f"(count {cfg['count']})"))
    elif k in ("tfb", "pfb"):
        if "padding" in cfg: c.append(("padding", f"(padding {cfg['padding']})"))
        if "sender" in cfg: c.append(("sender_ssrc", f"(sender_ssrc {cfg['sender']})"))
        if "media" in cfg: c.append(("media_ssrc", f"(media_ssrc {cfg['media']})"))
    return c


def render(cfg, r=None, style="canon"):
    if cfg["k"] == "custom" and cfg.get("unit"):
        return f"(unit {cfg['pt']})"
    if style == "default":
        return via_default(render_(cfg, r, "canon"), None)
    if style == "minimal":
        return DEFAULT_CALLS.sub("", render_(cfg, r, "canon"))
    e = render_(cfg, r, style)
    if r is not None and style != "canon" and r.random() < 0.25:
        e = via_default(e, r)
    return e


# calls that set a field to the value a fresh builder already has: a caller who wants the default does
# not make them ("minimal" style), so the defaults themselves are exercised
DEFAULT_CALLS = re.compile(r" \((?:padding|subtype|ntp|rtp|packet_count|octet_count|count|sender_ssrc|media_ssrc|payload_type|fl|cl|esn|jit|lsr|dlsr) 0\)"
                           r"| \(data -\)| \(native_data - 0\)")
VIA_DEFAULT = re.compile(r"\((nack|fir|rpsi|sdes|compound)(?=[ )])(?! \(via_default\))")


def via_default(expr, r):
    """construct the builders that implement `Default` through it (PROTOCOL.md: `(via_default)`);
    r None: all of them, else each with probability 1/2"""
    return VIA_DEFAULT.sub(lambda m: m.group(0) + " (via_default)" if (r is None or r.random() < 0.5) else m.group(0), expr)


def render_(cfg, r=None, style="canon"):
    """Render a configuration as a call sequence.
    style: canon | shuffle (independent setters permuted, list adders interleaved at random
    positions keeping their relative order) | repeat (each scalar setter preceded by a call with a
    different value) | owned (owned variants of every API that has one)."""
    k = cfg["k"]
    if k == "pb":
        return f"(pb {render(cfg['inner'], r, style)})"
    if k == "compound":
        ms = [render(m, r, style) for m in cfg["members"]]
        if style == "probe": ms = with_probes(ms, r, 0.5)
        return "(compound%s)" % "".join(" " + m for m in ms)
    if k == "chunk":
        owned = set(range(len(cfg["items"]))) if style == "owned" else ()
        return render_chunk(cfg, owned)
    if k == "item":
        return render_item(cfg, owned=(style == "owned"))
    if k in ("nack", "fir", "sli", "rpsi", "pli"):
        return render_fci(cfg, owned=(style == "owned"), r=r, probe=(style == "probe"))
    head = {"app": lambda: f"(app {cfg['ssrc']} {B(cfg['name'])}",
            "bye": lambda: "(bye",
            "rr": lambda: f"(rr {cfg['ssrc']}",
            "sr": lambda: f"(sr {cfg['ssrc']}",
            "sdes": lambda: "(sdes",
            "unknown": lambda: f"(unknown {cfg['type']} {B(cfg['data'])}",
            "tfb": lambda: f"(tfb {'owned' if style == 'owned' else cfg.get('mode', 'borrowed')} {render_fci(cfg['fci'], style == 'owned', r, style == 'probe')}",
            "pfb": lambda: f"(pfb {'owned' if style == 'owned' else cfg.get('mode', 'borrowed')} {render_fci(cfg['fci'], style == 'owned', r, style == 'probe')}",
            "custom": lambda: f"({'custom16' if cfg.get('mc16') else 'custom'} {cfg['pt']} {cfg['min']} {B(cfg['body'])}"}[k]()
    setters = [c for _, c in setter_calls(cfg)]
    adders = []
    if k == "bye":
        adders = [f"(add_source {s})" for s in cfg.get("sources", [])]
        if cfg.get("reason") is not None:
            nm = "reason_owned" if style == "owned" else cfg.get("reason_call", "reason")
            setters.append(f"({nm} {B(cfg['reason'])})")
    elif k in ("rr", "sr"):
        adders = [f"(add_report_block {render_rb(rb, r=r, style=style)})" for rb in cfg.get("rbs", [])]
    elif k == "sdes":
        adders = [f"(add_chunk {render_chunk(ch, set(range(len(ch['items']))) if style == 'owned' else ())})"
                  for ch in cfg.get("chunks", [])]
    if style == "repeat" and r is not None:
        # each setter preceded by a decoy call of the same setter with another value
        decoys = []
        for c in setters:
            name = c[1:].split(" ")[0]
            if name == "pad_style":
                continue
            if name in ("padding",):
                decoys.append(f"(padding {r.choice([0, 4, 8, 252, 3])})")
            elif name in ("subtype", "count"):
                # the third-party writers of the harness take header counts 0..31 only
                decoys.append(f"({name} {r.randint(0, 31 if k == 'custom' else 40)})")
            elif name in ("data",):
                decoys.append(f"(data {B(r_bytes(r, 4 * r.randint(0, 3)))})")
            elif name in ("reason", "reason_owned"):
                decoys.append(f"({name} {B(r_text(r, r.randint(0, 9)))})")
            else:
                decoys.append(f"({name} {r.getrandbits(32)})")
        calls = decoys + setters
        # adders anywhere, order kept
        calls = interleave(r, calls, adders, keep_first_order=True)
    elif style == "shuffle" and r is not None:
        s2 = setters[:]
        r.shuffle(s2)
        calls = interleave(r, s2, adders, keep_first_order=True)
    elif style == "probe" and r is not None:
        s2 = setters[:]
        r.shuffle(s2)
        calls = with_probes(interleave(r, s2, adders, keep_first_order=True), r)
    else:
        calls = setters + adders
    return head + "".join(" " + c for c in calls) + ")"


def interleave(r, a, b, keep_first_order=True):
    """random interleaving of a and b keeping the internal order of each"""
    out = []
    i = j = 0
    while i < len(a) or j < len(b):
        if j >= len(b) or (i < len(a) and r.random() < len(a[i:]) / (len(a[i:]) + len(b[j:]))):
            out.append(a[i]); i += 1
        else:
            out.append(b[j]); j += 1
    return out


def build_req(expr, bufs, rt_first=False):
    return "(build %s (bufs%s)%s)" % (expr, "".join(f" ({n} {f})" for n, f in bufs), " (rt_first)" if rt_first else "")


# --------------------------------------------------------------------------------------------
# random configurations

def r_rb(r, legal=True):
    cl = r.choice([0, 1, 0xff, 0x100, 0xffff, 0x10000, 0xffffff, r.getrandbits(24)])
    if not legal:
        cl = r.choice([0x1000000, 0xffffffff, 0x80000000, 0x1000000 + r.getrandbits(24)])
    return {"ssrc": r_u32(r), "fl": r_u8(r), "cl": cl, "esn": r_u32(r), "jit": r_u32(r),
            "lsr": 0 if r.random() < 0.25 else r_u32(r), "dlsr": 0 if r.random() < 0.15 else r_u32(r)}


def r_count(r, lim=31):
    x = r.random()
    if x < 0.3: return 0
    if x < 0.5: return 1
    if x < 0.6: return lim
    if x < 0.65: return lim + 1
    if x < 0.67: return lim + 2
    return r.randint(0, lim)


def with_repeats(r, xs, p=0.2, copy=lambda x: dict(x)):
    """some elements repeated right after themselves or later in the list (same total length)"""
    if len(xs) < 2 or r.random() > p: return xs
    xs = list(xs)
    for _ in range(r.randint(1, 2)):
        i = r.randrange(len(xs) - 1)
        j = i + 1 if r.random() < 0.6 else r.randrange(i + 1, len(xs))
        xs[j] = copy(xs[i])
    return xs


def cfg_sr(r):
    n = r_count(r)
    c = {"k": "sr", "ssrc": r_u32(r), "padding": r_padding(r), "ntp": r_u64(r), "rtp": r_u32(r), "pc": r_u32(r),
         "oc": r_u32(r), "rbs": with_repeats(r, [r_rb(r, r.random() > 0.03) for _ in range(n)])}
    if c["rbs"] and r.random() < 0.1: c["rbs"][r.randrange(len(c["rbs"]))]["ssrc"] = c["ssrc"]   # a block about the sender itself
    return c


def cfg_rr(r):
    n = r_count(r)
    c = {"k": "rr", "ssrc": r_u32(r), "padding": r_padding(r), "rbs": with_repeats(r, [r_rb(r, r.random() > 0.03) for _ in range(n)])}
    if c["rbs"] and r.random() < 0.1: c["rbs"][r.randrange(len(c["rbs"]))]["ssrc"] = c["ssrc"]
    return c


def cfg_bye(r):
    n = r_count(r)
    x = r.random()
    if x < 0.25: rl = 0
    elif x < 0.9: rl = r.choice([1, 2, 3, 4, 5, 6, 7, 8, 254, 255, r.randint(0, 255)])
    else: rl = r.choice([256, 257, 300])
    return {"k": "bye", "padding": r_padding(r), "sources": with_repeats(r, [r_u32(r) for _ in range(n)], copy=lambda x: x),
            "reason": r_text(r, rl) if (rl or r.random() < 0.5) else None,
            "reason_call": r.choice(["reason", "reason_owned"])}


def r_name(r):
    x = r.random()
    if x < 0.15:
        # any 7-bit octets, NUL and control characters included (all legal for the builder)
        return bytes(r.choice([0, 0, 1, 0x20, 0x41, 0x61, 0x7f, r.getrandbits(7)]) for _ in range(r.choice([4, 4, 3, 2, 1])))
    if x < 0.55: return r_ascii(r, 4)
    if x < 0.8: return r_ascii(r, r.randint(0, 3))
    if x < 0.86: return r_ascii(r, r.choice([5, 6, 8]))
    if x < 0.9:
        # too long, but only by NUL / blank octets (a trimming constructor would let it through)
        k = r.choice([1, 2, 3, 4]); tail = r.choice([b"\0", b" "]) * r.choice([1, 2, 4])
        return (r_ascii(r, k) + tail + b"\0" * 4)[:r.choice([5, 6, 8])] if r.random() < 0.8 else b"\0" * r.choice([5, 8])
    return r.choice(["é".encode(), "aé".encode(), "€".encode(), "ab€".encode(), "é€".encode()])


def r_ascii(r, n):
    return bytes(r.choice(b"ABCDabcd0123 _xyz") for _ in range(n))


def cfg_app(r):
    x = r.random()
    if x < 0.8: dl = 4 * r.choice([0, 1, 2, 3, 16, r.randint(0, 40)])
    else: dl = r.choice([1, 2, 3, 5, 7, 9, 10, 11, 4 * r.randint(0, 40) + r.randint(1, 3)])
    st = r.choice([0, 1, 31, r.randint(0, 31)]) if r.random() < 0.9 else r.choice([32, 33, 255, r.randint(32, 255)])
    return {"k": "app", "ssrc": r_u32(r), "name": r_name(r), "padding": r_padding(r), "subtype": st,
            "data": r_bytes(r, dl)}


def r_item(r):
    x = r.random()
    ty = r.choice([1, 2, 3, 4, 5, 6, 7, 8, 8, 8, 9, 255, r.randint(1, 255)])
    if r.random() < 0.01: ty = 0
    if ty == 8:
        y = r.random()
        if y < 0.8:
            pl = r.choice([0, 1, 2, 3, 4, 5, 253, 254, r.randint(0, 254)])
            vl = r.choice([0, 1, 2, 3, max(0, 254 - pl), r.randint(0, max(0, 254 - pl))])
        elif y < 0.9:
            pl = r.choice([255, 256, 300]); vl = r.randint(0, 4)
        else:
            pl = r.randint(0, 254); vl = 255 - pl + r.randint(0, 3)
        return {"type": 8, "value": r_text(r, vl), "prefix": r_bytes(r, pl)}
    if x < 0.9:
        vl = r.choice([0, 1, 2, 3, 4, 5, 6, 7, 254, 255, r.randint(0, 255)])
    else:
        vl = r.choice([256, 257, 300])
    it = {"type": ty, "value": r_text(r, vl)}
    if 2 <= vl <= 255 and r.random() < 0.08:
        # what a line read from a file or a C string carries at its end (a trimming constructor would drop it)
        t = r.choice([b"\n", b"\r\n", b"\r", b" ", b"\0", b"\t"])
        if len(t) < vl: it["value"] = _r_text(r, vl - len(t)) + t
    if r.random() < 0.1:
        it["prefix"] = r_bytes(r, r.randint(0, 5))   # ignored for non-PRIV
    return it


def r_chunk(r):
    x = r.random()
    n = 0 if x < 0.15 else 1 if x < 0.55 else 2 if x < 0.8 else r.randint(3, 6)
    return {"k": "chunk", "ssrc": r_u32(r), "items": [r_item(r) for _ in range(n)]}


def cfg_sdes(r):
    x = r.random()
    n = 0 if x < 0.1 else 1 if x < 0.5 else 2 if x < 0.75 else r.choice([3, 31, 32, r.randint(3, 31)])
    if n >= 20:
        chunks = []
        for _ in range(n):
            c = r_chunk(r); c["items"] = c["items"][:1]; chunks.append(c)
    else:
        chunks = [r_chunk(r) for _ in range(n)]
    if len(chunks) >= 2 and r.random() < 0.25:
        # the same SSRC in two chunks, adjacent or not
        i = r.randrange(len(chunks) - 1)
        j = i + 1 if r.random() < 0.6 else r.randrange(i + 1, len(chunks))
        chunks[j]["ssrc"] = chunks[i]["ssrc"]
    return {"k": "sdes", "padding": r_padding(r), "chunks": chunks}


def cfg_unknown(r):
    x = r.random()
    if x < 0.85: dl = 4 * r.choice([0, 1, 2, 3, r.randint(0, 17)])
    else: dl = r.choice([1, 2, 3, 5, 6, 7, 4 * r.randint(0, 17) + r.randint(1, 3)])
    ct = r.randint(0, 31) if r.random() < 0.9 else r.choice([32, 33, 255])
    ty = r.choice([0, 192, 193, 195, 199, 207, 208, 242, 255, 72, 76, 200, 201, 202, 203, 204, 205, 206, r.randint(0, 255)])
    data = r_bytes(r, dl)
    if dl >= 4 and dl % 4 == 0 and r.random() < 0.12:
        # the payload looks like a packet itself: version 2, same (or another) type, consistent length
        inner_ty = ty if r.random() < 0.7 else r.choice([200, 201, 207])
        data = bytes([0x80 | r.getrandbits(5) | (0x20 if r.random() < 0.2 else 0), inner_ty]) + struct.pack(">H", dl // 4 - 1) + data[4:]
    return {"k": "unknown", "type": ty, "data": data, "padding": r_padding(r), "count": ct}


def r_nack(r):
    x = r.random()
    if x < 0.1: seqs = []
    elif x < 0.3:
        b = r_u16(r); seqs = [(b + i) % 65536 for i in range(r.choice([1, 2, 16, 17, 18, 19, 34, 35, 40]))]
    elif x < 0.5:
        b = r_u16(r); gap = r.choice([16, 17, 18, 1, 2, 33]); seqs = [(b + i * gap) % 65536 for i in range(r.randint(1, 12))]
    elif x < 0.6:
        seqs = [0, 65535] + [r_u16(r) for _ in range(r.randint(0, 6))]
    elif x < 0.93:
        seqs = [r_u16(r) for _ in range(r.randint(1, 20))]
    else:
        # many words: one sequence number every 17+ so that each needs a word of its own
        b0 = r_u16(r); seqs = [(b0 + i * r.choice([17, 18, 40])) % 65536 for i in range(r.choice([63, 64, 65, 100, 300]))]
    if r.random() < 0.3 and seqs:
        seqs = seqs + [r.choice(seqs) for _ in range(r.randint(1, 3))]   # duplicates
    if r.random() < 0.5:
        r.shuffle(seqs)
    return {"k": "nack", "seqs": seqs}


def r_fir(r):
    x = r.random()
    n = 0 if x < 0.08 else 1 if x < 0.4 else r.randint(2, 8)
    ents = [(r_u32(r), r_u8(r)) for _ in range(n)]
    if ents and r.random() < 0.12:
        ents[r.randrange(len(ents))] = (0, 0)
    if ents and r.random() < 0.3:
        ents.append((r.choice(ents)[0], r_u8(r)))    # re-add: last wins
    if r.random() < 0.12:
        # a long history: 21..48 calls over a few SSRCs, re-adds with other sequence numbers, in any order
        ssrcs = [r_u32(r) for _ in range(r.randint(3, 12))]
        ents = [(r.choice(ssrcs), r_u8(r)) for _ in range(r.randint(21, 48))]
    return {"k": "fir", "entries": ents}


def r_sli(r, in_range=None):
    x = r.random()
    n = 0 if x < 0.08 else 1 if x < 0.4 else r.randint(2, 8)
    ents = []
    if n >= 2 and r.random() < 0.35:
        # runs: an entry that continues (or repeats, or overlaps) the previous one, same or other picture
        f = r.choice([0, 1, 100, 8000, r.getrandbits(12)]); p = r.getrandbits(6)
        for _ in range(n):
            c = r.choice([0, 1, 1, 2, 5, 7, 20, 191])
            ents.append((f & 0x1fff, c, p))
            y = r.random()
            f = f + c if y < 0.7 else f if y < 0.8 else f + c + 1 if y < 0.9 else max(0, f + c - 1)
            if r.random() < 0.2: p = (p + 1) & 63
        return {"k": "sli", "entries": ents}
    for _ in range(n):
        if in_range is None: ok = r.random() < 0.85
        else: ok = in_range
        if ok:
            ents.append((r.choice([0, 1, 31, 32, 0x1fff, r.getrandbits(13)]), r.choice([0, 1, 3, 4, 1023, 1024, 0x1fff, r.getrandbits(13)]),
                         r.choice([0, 1, 63, r.getrandbits(6)])))
        else:
            ents.append((r.getrandbits(16), r.getrandbits(16), r.getrandbits(8)))
    return {"k": "sli", "entries": ents}


def r_rpsi(r):
    x = r.random()
    n = r.choice([0, 1, 2, 3, 4, 5, 6, 7, 8, r.randint(0, 40)])
    if n == 0:
        ov = 0 if x < 0.7 else r.randint(1, 9)
    else:
        ov = r.randint(0, 8) if x < 0.9 else r.choice([9, 10, 255])
    pt = r.choice([0, 96, 127, r.randint(0, 127)]) if r.random() < 0.9 else r.choice([128, 129, 255])
    f = {"k": "rpsi", "pt": pt, "data": r_bytes(r, n), "overrun": ov}
    return f


def r_fci(r, kind=None):
    kind = kind or r.choice(["nack", "fir", "sli", "rpsi", "pli"])
    return {"nack": r_nack, "fir": r_fir, "sli": r_sli, "rpsi": r_rpsi, "pli": lambda r: {"k": "pli"}}[kind](r)


def cfg_fb(r, k=None, fci_kind=None, allow_wrong=True):
    fci = r_fci(r, fci_kind)
    natural = "tfb" if fci["k"] == "nack" else "pfb"
    if k is None:
        k = natural if (not allow_wrong or r.random() < 0.9) else ("pfb" if natural == "tfb" else "tfb")
    snd = r_u32(r)
    med = snd if r.random() < 0.08 else r_u32(r)
    # the header SSRCs equal to an SSRC inside the FCI (FIR entries name media senders too)
    if fci["k"] == "fir" and fci["entries"] and r.random() < 0.2:
        e = r.choice(fci["entries"])[0]
        if r.random() < 0.7: med = e
        else: snd = e
    return {"k": k, "mode": r.choice(["borrowed", "owned"]), "fci": fci, "padding": r_padding(r),
            "sender": snd, "media": med}


CUSTOM_PTS = [0, 192, 199, 200, 204, 207, 208, 242, 255]
CUSTOM_MINS = [4, 8, 12, 20]


def cfg_custom(r, unknown_pt_only=False):
    pt = r.choice([192, 199, 207, 208, 242, 255, 0] if unknown_pt_only else CUSTOM_PTS)
    x = r.random()
    bl = 4 * r.randint(0, 6) if x < 0.9 else r.choice([1, 2, 3, 5, 6, 7])
    c = {"k": "custom", "pt": pt, "min": r.choice(CUSTOM_MINS), "body": r_bytes(r, bl), "padding": r_padding(r)}
    if r.random() < 0.35: c["mc16"] = True            # the family whose RtcpPacket::MAX_COUNT is 16
    if r.random() < 0.6: c["count"] = r.choice([0, 1, 15, 16, 17, 31, r.randint(0, 31)])
    if r.random() < 0.3: c["some0"] = True     # a third-party writer whose get_padding() says Some(0)
    return c


PACKET_CFGS = {"sr": cfg_sr, "rr": cfg_rr, "bye": cfg_bye, "app": cfg_app, "sdes": cfg_sdes, "unknown": cfg_unknown,
               "fb": cfg_fb, "custom": cfg_custom}


def cfg_packet(r, kinds=None):
    kinds = kinds or ["sr", "rr", "bye", "app", "sdes", "unknown", "fb", "fb"]
    return PACKET_CFGS[r.choice(kinds)](r)


def legalize(r, cfg):
    """make a member configuration valid and unpadded (for compound members)"""
    c = dict(cfg)
    c["padding"] = 0
    return c


def cfg_compound(r, depth=0):
    x = r.random()
    n = 0 if x < 0.07 else 1 if x < 0.2 else r.randint(2, 6)
    ms = []
    for i in range(n):
        y = r.random()
        if y < 0.1 and depth < 2:
            m = cfg_compound(r, depth + 1)
        elif y < 0.14:
            # a zero-sized third-party writer (same image as a custom packet of MIN 8 with four zero bytes)
            m = {"k": "custom", "unit": True, "pt": r.choice([242, 208, 199]), "min": 8, "body": bytes(4), "padding": 0}
        elif y < 0.2:
            m = cfg_custom(r)
        elif y < 0.35:
            inner = cfg_packet(r)
            m = {"k": "pb", "inner": inner}
        else:
            m = cfg_packet(r)
        # most members unpadded unless last; sometimes padding on a non-last member
        if m["k"] not in ("compound",):
            tgt = m["inner"] if m["k"] == "pb" else m
            if i < n - 1 and r.random() < 0.9:
                tgt["padding"] = 0
        ms.append(m)
    # a padded non-last member whose padding equals the last member's (a rule written as a comparison of
    # amounts instead of positions would let it through)
    leafs = [(x["inner"] if x["k"] == "pb" else x) for x in ms if x["k"] != "compound" and not x.get("unit")]
    if len(leafs) >= 2 and r.random() < 0.12:
        p = r.choice([4, 8, 12, 252])
        leafs[-1]["padding"] = p
        leafs[r.randrange(len(leafs) - 1)]["padding"] = p
    return {"k": "compound", "members": ms}


# --------------------------------------------------------------------------------------------
# reference wire encoders (used to produce well-formed parser inputs and as the independent
# encoder of C07 / C09)

def hdr(pt, count, total_len, pbit=False, version=2):
    return bytes([(version << 6) | (0x20 if pbit else 0) | (count & 0x1f), pt]) + struct.pack(">H", (total_len // 4 - 1) & 0xffff)


def trailer(p):
    return bytes(p - 1) + bytes([p]) if p else b""


def enc_rb(rb):
    return struct.pack(">IB", rb["ssrc"], rb["fl"]) + struct.pack(">I", rb["cl"])[1:] + struct.pack(">IIII", rb["esn"], rb["jit"], rb["lsr"], rb["dlsr"])


def enc_sr(c):
    body = struct.pack(">IQIII", c["ssrc"], c["ntp"], c["rtp"], c["pc"], c["oc"]) + b"".join(enc_rb(b) for b in c["rbs"]) + trailer(c["padding"])
    return hdr(200, len(c["rbs"]), 4 + len(body), c["padding"] > 0) + body


def enc_rr(c):
    body = struct.pack(">I", c["ssrc"]) + b"".join(enc_rb(b) for b in c["rbs"]) + trailer(c["padding"])
    return hdr(201, len(c["rbs"]), 4 + len(body), c["padding"] > 0) + body


def pad4(b):
    return b + bytes((-len(b)) % 4)


def enc_bye(c):
    body = b"".join(struct.pack(">I", s) for s in c["sources"])
    if c.get("reason"):
        body += pad4(bytes([len(c["reason"])]) + c["reason"])
    body += trailer(c["padding"])
    return hdr(203, len(c["sources"]), 4 + len(body), c["padding"] > 0) + body


def enc_app(c):
    body = struct.pack(">I", c["ssrc"]) + c["name"] + bytes(4 - len(c["name"])) + c["data"] + trailer(c["padding"])
    return hdr(204, c["subtype"], 4 + len(body), c["padding"] > 0) + body


def enc_item(it):
    if it["type"] == 8:
        p = it.get("prefix") or b""
        return bytes([8, len(p) + 1 + len(it["value"]), len(p)]) + p + it["value"]
    return bytes([it["type"], len(it["value"])]) + it["value"]


def enc_chunk(ch):
    b = struct.pack(">I", ch["ssrc"]) + b"".join(enc_item(i) for i in ch["items"]) + b"\0"
    return pad4(b)


def enc_sdes(c):
    body = b"".join(enc_chunk(ch) for ch in c["chunks"]) + trailer(c["padding"])
    return hdr(202, len(c["chunks"]), 4 + len(body), c["padding"] > 0) + body


def enc_unknown(c):
    body = c["data"] + trailer(c["padding"])
    return hdr(c["type"], c["count"], 4 + len(body), c["padding"] > 0) + body


def nack_words(seqs):
    """minimum cover of a set by (PID, BLP) words, greedy from the smallest"""
    s = sorted(set(seqs))
    out = []
    i = 0
    while i < len(s):
        pid = s[i]
        blp = 0
        j = i + 1
        while j < len(s) and s[j] - pid <= 16:
            blp |= 1 << (s[j] - pid - 1)
            j += 1
        out.append((pid, blp))
        i = j
    return out


def fir_map(entries):
    m = {}
    for s, q in entries:
        m[s] = q
    return m


def enc_fci(f):
    k = f["k"]
    if k == "nack":
        return b"".join(struct.pack(">HH", p, b) for p, b in nack_words(f["seqs"]))
    if k == "fir":
        return b"".join(struct.pack(">IB", s, q) + b"\0\0\0" for s, q in fir_map(f["entries"]).items())
    if k == "sli":
        return b"".join(struct.pack(">I", ((a & 0x1fff) << 19) | ((b & 0x1fff) << 6) | (c & 0x3f)) for a, b, c in f["entries"])
    if k == "rpsi":
        d = f["data"]
        total = (2 + len(d) + 3) // 4 * 4
        padbits = 8 * (total - 2 - len(d)) + f["overrun"]
        if d:
            kbits = f["overrun"]
            d = d[:-1] + bytes([(d[-1] >> kbits << kbits) & 0xff])
        return bytes([padbits, f["pt"]]) + d + bytes(total - 2 - len(d))
    if k == "pli":
        return b""
    raise ValueError(k)


FCI_FMT = {"nack": 1, "fir": 4, "sli": 2, "rpsi": 3, "pli": 1}


def enc_fb(c):
    pt = 205 if c["k"] == "tfb" else 206
    body = struct.pack(">II", c["sender"], c["media"]) + enc_fci(c["fci"]) + trailer(c["padding"])
    return hdr(pt, FCI_FMT[c["fci"]["k"]], 4 + len(body), c["padding"] > 0) + body


def enc_custom(c):
    body = c["body"] + bytes(max(0, c["min"] - 4 - len(c["body"]))) + trailer(c["padding"])
    return hdr(c["pt"], c.get("count", 0), 4 + len(body), c["padding"] > 0) + body


def encode(c):
    k = c["k"]
    if k == "pb": return encode(c["inner"])
    if k == "compound": return b"".join(encode(m) for m in c["members"])
    if k == "chunk": return enc_chunk(c)
    if k == "item": return enc_item(c)
    if k in FCI_FMT: return enc_fci(c)
    return {"sr": enc_sr, "rr": enc_rr, "bye": enc_bye, "app": enc_app, "sdes": enc_sdes, "unknown": enc_unknown,
            "tfb": enc_fb, "pfb": enc_fb, "custom": enc_custom}[k](c)


MAXLEN = 262144


def violations(c):
    """Reference representability predicate (C16): the list of acceptable error renderings;
    empty = the configuration must be accepted."""
    k = c["k"]
    v = []

    def padchk(p):
        if p % 4: v.append(f"InvalidPadding({p})")

    def too_large(n):
        if n > MAXLEN: v.append(f"PacketTooLarge({n},{MAXLEN})")

    if k == "pb":
        return violations(c["inner"])
    if k == "compound":
        ms = c["members"]
        for i, m in enumerate(ms):
            mv = violations(m)
            v += mv
            if i != len(ms) - 1 and eff_padding(m) > 0:
                v.append("NonLastCompoundPacketPadding")
        return v
    if k in ("sr", "rr"):
        if len(c["rbs"]) > 31: v.append(f"TooManyReportBlocks({len(c['rbs'])},31)")
        padchk(c["padding"])
        for rb in c["rbs"]:
            if rb["cl"] > 0xffffff: v.append(f"CumulativeLostTooLarge({rb['cl']},16777215)")
    elif k == "bye":
        if len(c["sources"]) > 31: v.append(f"TooManySources({len(c['sources'])},31)")
        padchk(c["padding"])
        if c.get("reason") and len(c["reason"]) > 255: v.append(f"ReasonLenTooLarge({len(c['reason'])},255)")
    elif k == "app":
        if c["subtype"] > 31: v.append(f"AppSubtypeOutOfRange({c['subtype']},31)")
        if len(c["name"]) > 4 or any(b > 127 for b in c["name"]): v.append("InvalidName")
        if len(c["data"]) % 4: v.append(f"DataLen32bitMultiple({len(c['data'])})")
        padchk(c["padding"])
        if not v: too_large(12 + len(c["data"]) + c["padding"])
    elif k == "item":
        v += item_viol(c)
    elif k == "chunk":
        for it in c["items"]: v += item_viol(it)
    elif k == "sdes":
        if len(c["chunks"]) > 31: v.append(f"TooManySdesChunks({len(c['chunks'])},31)")
        padchk(c["padding"])
        for ch in c["chunks"]:
            for it in ch["items"]: v += item_viol(it)
        if not v: too_large(len(enc_sdes(c)))
    elif k == "unknown":
        if c["count"] > 31: v.append(f"CountOutOfRange({c['count']},31)")
        padchk(c["padding"])
        if len(c["data"]) % 4: v.append(f"DataLen32bitMultiple({len(c['data'])})")
        if not v: too_large(4 + len(c["data"]) + c["padding"])
    elif k in ("tfb", "pfb"):
        padchk(c["padding"])
        f = c["fci"]
        natural = "tfb" if f["k"] == "nack" else "pfb"
        if natural != k: v.append("FciWrongFeedbackPacketType")
        v += violations(f)
        if not v: too_large(12 + len(enc_fci(f)) + c["padding"])
    elif k == "rpsi":
        if c["pt"] > 127: v.append("PayloadTypeInvalid")
        if c["overrun"] > 8 or (len(c["data"]) == 0 and c["overrun"] > 0): v.append("PaddingBitsTooLarge")
    elif k == "fir":
        if len(fir_map(c["entries"])) > 32766: v.append("TooManyFir")
    elif k == "nack":
        if len(nack_words(c["seqs"])) > 65533: v.append("TooManyNack")
    elif k in ("sli", "pli"):
        pass
    elif k == "custom":
        padchk(c["padding"])
        if len(c["body"]) % 4: v.append(f"DataLen32bitMultiple({len(c['body'])})")
    return v


def item_viol(it):
    v = []
    vl = len(it["value"])
    if it["type"] == 8:
        pl = len(it.get("prefix") or b"")
        if pl + 1 > 255: v.append(f"SdesPrivPrefixTooLarge({pl},254)")
        elif pl + 1 + vl > 255: v.append(f"SdesValueTooLarge({vl},{254 - pl})")
    elif vl > 255:
        v.append(f"SdesValueTooLarge({vl},255)")
    return v


def eff_padding(c):
    """get_padding() of a member (0 = None)"""
    k = c["k"]
    if k == "pb": return eff_padding(c["inner"])
    if k == "compound": return eff_padding(c["members"][-1]) if c["members"] else 0
    return c.get("padding", 0)


def flatten(c):
    """leaf packet configurations of a (nested) compound, in order"""
    k = c["k"]
    if k == "pb": return flatten(c["inner"])
    if k == "compound":
        out = []
        for m in c["members"]: out += flatten(m)
        return out
    return [c]


# --------------------------------------------------------------------------------------------
# damage operators for parser inputs

def damages(r, p, n=6):
    """a few single damages of a well-formed packet"""
    out = []
    L = len(p)
    cands = []
    for k in (1, 2, 3, 4):
        if L > k: cands.append(p[:-k])
    cands.append(p + bytes(r.choice([1, 2, 3, 4])))
    cands.append(p + p[:4])
    if L >= 4:
        cands.append(bytes([p[0] ^ 0x20]) + p[1:])                       # flip P
        for last in (0, 1, L - 4 if L - 4 < 256 else 255, (L - 3) & 0xff, 255, 4, 5, L & 0xff):
            cands.append(bytes([p[0] | 0x20]) + p[1:-1] + bytes([last & 0xff]))
        cands.append(bytes([(p[0] & 0xe0) | ((p[0] + 1) & 0x1f)]) + p[1:])   # count + 1
        cands.append(bytes([(p[0] & 0xe0) | ((p[0] - 1) & 0x1f)]) + p[1:])   # count - 1
        cands.append(bytes([p[0] & 0xe0 | 31]) + p[1:])
        lf = struct.unpack(">H", p[2:4])[0]
        for d in (1, -1, 2, 0x100):
            cands.append(p[:2] + struct.pack(">H", (lf + d) & 0xffff) + p[4:])
        cands.append(p[:2] + b"\0\0" + p[4:])
        cands.append(p[:2] + b"\xff\xff" + p[4:])
        for ver in (0, 1, 3):
            cands.append(bytes([(p[0] & 0x3f) | (ver << 6)]) + p[1:])
        cands.append(p[:1] + bytes([(p[1] + r.choice([1, 2, 255, 254])) & 0xff]) + p[2:])
        if L > 4:
            i = r.randrange(4, L)
            cands.append(p[:i] + bytes([r.choice([0, 1, 2, 8, 0xff, p[i] ^ (1 << r.randrange(8))])]) + p[i + 1:])
            i = r.randrange(4, L)
            cands.append(p[:i] + bytes([r.choice([0, 1, 2, 8, 0xff])]) + p[i + 1:])
    r.shuffle(cands)
    return cands[:n]
