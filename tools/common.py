"""Shared plumbing: building both executors, running request files through them, parsing transcripts."""
import fcntl
import os
import subprocess
import sys
import time

VERIF = os.path.dirname(os.path.dirname(os.path.abspath(__file__)))
REPO = os.environ.get("RTCP_REPO", "/repo")
LEAN_DIR = os.path.join(VERIF, "lean")
HARNESS_DIR = os.path.join(VERIF, "harness")
DRIVER = os.path.join(LEAN_DIR, ".lake", "build", "bin", "driver")
HARNESS = os.path.join(HARNESS_DIR, "target", "release", "harness")
WORK = os.path.join(VERIF, "work")

ENV = dict(os.environ)
ENV["CARGO_NET_OFFLINE"] = "true"
# the conda wrapper of this sandbox prints a warning on stderr for every command; harmless


class BuildError(Exception):
    pass


def _lock(name):
    os.makedirs(WORK, exist_ok=True)
    f = open(os.path.join(WORK, name + ".lock"), "w")
    fcntl.flock(f, fcntl.LOCK_EX)
    return f


def build_harness(log):
    """cargo build of the harness against /repo's *working tree* (path dependency)."""
    lk = _lock("cargo")
    try:
        lockfile = os.path.join(HARNESS_DIR, "Cargo.lock")
        if not os.path.exists(lockfile):
            import shutil
            shutil.copy(os.path.join(REPO, "Cargo.lock"), lockfile)
        t = time.time()
        p = subprocess.run(["cargo", "build", "--offline", "--release"], cwd=HARNESS_DIR, env=ENV,
                           stdout=subprocess.PIPE, stderr=subprocess.STDOUT, text=True)
        log(f"cargo build harness: rc={p.returncode} {time.time()-t:.1f}s")
        if p.returncode != 0:
            raise BuildError("harness does not build against /repo:\n" + p.stdout[-4000:])
    finally:
        lk.close()


def build_lean(targets, log):
    lk = _lock("lake")
    try:
        t = time.time()
        p = subprocess.run(["lake", "build"] + targets, cwd=LEAN_DIR, env=ENV,
                           stdout=subprocess.PIPE, stderr=subprocess.STDOUT, text=True)
        log(f"lake build {' '.join(targets)}: rc={p.returncode} {time.time()-t:.1f}s")
        return p.returncode, p.stdout
    finally:
        lk.close()


def parse_transcript(text):
    """-> list of dicts, index = request number"""
    out = []
    cur = None
    for line in text.split("\n"):
        if not line:
            continue
        if line[0] == "#":
            cur = {}
            out.append(cur)
        elif cur is not None:
            k, _, v = line.partition("=")
            cur[k] = v
    return out


def run_exec(path, requests, timeout=1800):
    """Run an executor on a list of request strings; returns list of transcript dicts."""
    data = ("\n".join(requests) + "\n").encode()
    p = subprocess.run([path], input=data, stdout=subprocess.PIPE, stderr=subprocess.PIPE, timeout=timeout)
    if p.returncode != 0:
        raise RuntimeError(f"{path} exited with {p.returncode}: {p.stderr[-2000:].decode(errors='replace')}")
    tr = parse_transcript(p.stdout.decode())
    if len(tr) != len(requests):
        raise RuntimeError(f"{path}: {len(tr)} transcript blocks for {len(requests)} requests")
    return tr


def _plan(requests, chunk):
    """index lists: heavy requests (large inputs; the model is quadratic on some) each in a chunk of
    their own so that they run in parallel, the rest in chunks of `chunk`"""
    heavy = [i for i, q in enumerate(requests) if len(q) > 6000 or "(rep " in q]
    hs = set(heavy)
    light = [i for i in range(len(requests)) if i not in hs]
    plan = [[i] for i in heavy] + [light[i:i + chunk] for i in range(0, len(light), chunk)]
    return [c for c in plan if c] or [[]]


def _run_planned(path, requests, plan, ex):
    futs = [ex.submit(run_exec, path, [requests[i] for i in c]) for c in plan]
    out = [None] * len(requests)
    for c, f in zip(plan, futs):
        for i, t in zip(c, f.result()):
            out[i] = t
    return out


def run_both(requests, chunk=8000):
    """Run requests through harness (impl) and driver (model) in chunks, in parallel processes."""
    import concurrent.futures as cf
    plan = _plan(requests, chunk)
    with cf.ThreadPoolExecutor(max_workers=16) as ex:
        import threading
        res = {}
        def go(name, path):
            res[name] = _run_planned(path, requests, plan, ex2)
        with cf.ThreadPoolExecutor(max_workers=16) as ex2:
            t1 = threading.Thread(target=go, args=("i", HARNESS)); t2 = threading.Thread(target=go, args=("m", DRIVER))
            t1.start(); t2.start(); t1.join(); t2.join()
    if "i" not in res or "m" not in res:
        raise RuntimeError("an executor failed")
    return res["i"], res["m"]


def run_model(requests, chunk=20000):
    import concurrent.futures as cf
    model = []
    chunks = [requests[i:i + chunk] for i in range(0, len(requests), chunk)] or [[]]
    with cf.ThreadPoolExecutor(max_workers=16) as ex:
        for f in [ex.submit(run_exec, DRIVER, c) for c in chunks]:
            model.extend(f.result())
    return model


def hexb(b):
    return b.hex() if len(b) else "-"


def unhex(s):
    return b"" if s == "-" else bytes.fromhex(s)
